#!/bin/bash
# Build the tooling overlay: a venv layered over /venv (where gemato is installed editable
# from /repo) plus crosshair-tool from the offline wheelhouse.  Idempotent, offline, flock'ed.
set -e
HERE="$(cd "$(dirname "$0")" && pwd)"
cd "$HERE"
exec 9>"$HERE/.setup.lock"
flock 9
if [ -x .venv/bin/python ] && .venv/bin/python -c "import crosshair, z3, gemato" 2>/dev/null; then
    exit 0
fi
rm -rf .venv
/venv/bin/python -m venv .venv
SP=$(.venv/bin/python -c "import sysconfig; print(sysconfig.get_paths()['purelib'])")
echo "import site; site.addsitedir('/venv/lib/python3.12/site-packages')" > "$SP/_overlay.pth"
PIP_NO_INDEX=1 .venv/bin/pip install -q --no-index --find-links /opt/veriftools/wheels crosshair-tool
.venv/bin/python -c "import crosshair, z3, gemato; print('setup ok', crosshair.__version__, gemato.__file__)"
