"""Exact, solver-friendly stand-in for a float st_mtime with a sub-second part."""


class HalfSec:
    """a time stamp with a .0 or .5 fraction, kept as an integer number of half seconds
    (exact and solver-friendly stand-in for the float st_mtime): compares with whole
    seconds, int() truncates, float() converts"""

    def __init__(self, v2):
        self.v2 = v2

    @staticmethod
    def _v2(o):
        return o.v2 if isinstance(o, HalfSec) else 2 * o

    def __le__(self, o):
        return self.v2 <= self._v2(o)

    def __lt__(self, o):
        return self.v2 < self._v2(o)

    def __ge__(self, o):
        return self.v2 >= self._v2(o)

    def __gt__(self, o):
        return self.v2 > self._v2(o)

    def __eq__(self, o):
        return self.v2 == self._v2(o)

    def __ne__(self, o):
        return self.v2 != self._v2(o)

    __hash__ = None

    def __int__(self):
        return self.v2 // 2

    __trunc__ = __floor__ = __int__

    def __float__(self):
        return self.v2 / 2
