"""
Independent oracles over a ModelFS.  Written from the property statements and GLEP 74,
set-based, without using gemato's loader or its path helpers.
"""
import posixpath

from vf.modelfs import crash_origin  # noqa: E402

from vf import sym
from vf.modelfs import ROOT, digest_for

COMPAT = ('MANIFEST', 'DATA', 'EBUILD', 'AUX')


def cw_prefix(path, prefix):
    """prefix is a whole-component prefix of path (both normalised relative paths)"""
    return prefix == '' or path == prefix or path.startswith(prefix + '/')


def file_matches(node, e):
    """K1 rule without the mtime shortcut: node is a regular file with the entry's size
    and every listed digest."""
    if node is None or node.kind != 'file':
        return False
    if sym.ne(node.size, e.size):
        return False
    for h, val in e.checksums.items():
        if sym.ne(val, digest_for(h, node.digest)):
            return False
    return True


def resolve(fs, rel):
    try:
        return fs.lookup(posixpath.join(ROOT, rel))
    except OSError:
        return None


class Chain:
    def __init__(self):
        self.accepted = []      # (mpath, dir, entries)
        self.error = None       # None | 'mismatch' | 'syntax' | 'missing'
        self.broken = []        # mpaths whose link is broken


def load_chain(fs, top_name, path, recursive=True):
    """Manifests that govern `path` (and, if recursive, everything beneath it), accepted
    only through matching MANIFEST entries of already accepted Manifests."""
    ch = Chain()
    top = resolve(fs, top_name)
    ch.accepted.append((top_name, posixpath.dirname(top_name), top.entries))
    seen = {top_name}
    i = 0
    while i < len(ch.accepted):
        mpath, d, entries = ch.accepted[i]
        i += 1
        for e in entries:
            if e.tag != 'MANIFEST':
                continue
            mp = posixpath.join(d, e.path)
            if mp in seen:
                continue
            mdir = posixpath.dirname(mp)
            if not (cw_prefix(path, mdir) or (recursive and cw_prefix(mdir, path))):
                continue
            node = resolve(fs, mp)
            if not file_matches(node, e):
                ch.error = ch.error or 'mismatch'
                ch.broken.append(mp)
                seen.add(mp)
                continue
            if node.invalid or node.entries is None:
                ch.error = ch.error or 'syntax'
                seen.add(mp)
                continue
            seen.add(mp)
            ch.accepted.append((mp, mdir, node.entries))
    return ch


def compatible(e1, e2):
    if e1.tag != e2.tag and not (e1.tag in COMPAT and e2.tag in COMPAT):
        return False
    if e1.tag == 'IGNORE':
        return True
    if sym.ne(e1.size, e2.size):
        return False
    for h, v in e1.checksums.items():
        if h in e2.checksums and sym.ne(e2.checksums[h], v):
            return False
    return True


class Verdict:
    def __init__(self):
        self.chain_error = None
        self.incompatible = False
        self.offending = []     # relpaths that definitely fail
        self.maybe = []         # relpaths that fail unless the mtime shortcut skips them
        self.dontcare = False


def collect_entries(ch, path):
    """fullpath -> list of file/IGNORE entries beneath `path`"""
    out = {}
    for mpath, d, entries in ch.accepted:
        for e in entries:
            if e.tag in ('DIST', 'TIMESTAMP'):
                continue
            full = posixpath.join(d, e.path)
            if cw_prefix(full, path):
                out.setdefault(full, []).append(e)
    return out


class _Stop(Exception):
    pass


def oracle_verify(fs, top_name, path='', last_mtime=None, first_only=False):
    """first_only: stop at the first definitely offending path (enough for the verdict of
    a strict verification; avoids forking on attributes that cannot change it)."""
    v = Verdict()
    try:
        _oracle_verify(v, fs, top_name, path, last_mtime, first_only)
    except _Stop:
        pass
    return v


def _oracle_verify(v, fs, top_name, path, last_mtime, first_only):
    ch = load_chain(fs, top_name, path)
    if ch.error:
        v.chain_error = ch.error
        return v
    ents = collect_entries(ch, path)
    for full, lst in ents.items():
        for i in range(len(lst)):
            for j in range(i + 1, len(lst)):
                if not compatible(lst[i], lst[j]):
                    v.incompatible = True
    if v.incompatible:
        return v
    # is the verified path itself inside an IGNOREd subtree?  (statement is silent)
    for mpath, d, entries in ch.accepted:
        for e in entries:
            if e.tag == 'IGNORE' and cw_prefix(path, posixpath.join(d, e.path)) and path:
                v.dontcare = True

    def bad(rel):
        v.offending.append(rel)
        if first_only:
            raise _Stop()

    def rule(rel, node, lst):
        if all(e.tag == 'IGNORE' for e in lst):
            return
        es = [e for e in lst if e.tag != 'IGNORE']
        ok_all = all(file_matches(node, e) for e in es)
        if ok_all:
            return
        if (last_mtime is not None and node is not None and node.kind == 'file'
                and sym.le(node.mtime, last_mtime)
                and all(sym.eq(node.size, e.size) for e in es) and sym.ne(node.size, 0)
                and node.st_size is None):
            v.maybe.append(rel)
            return
        bad(rel)

    consumed = set()
    start = resolve(fs, path)

    def visit(dir_rel, node, depth):
        if depth > 12:
            return
        for name, child in node.children.items():
            if name.startswith('.'):
                continue
            rel = posixpath.join(dir_rel, name)
            res = child
            if child.kind == 'symlink':
                res = resolve(fs, rel)
            lst = ents.get(rel)
            if res is not None and res.kind == 'dir':
                if lst is None:
                    visit(rel, res, depth + 1)
                else:
                    consumed.add(rel)
                    if not all(e.tag == 'IGNORE' for e in lst):
                        bad(rel)
            else:
                if rel == top_name:
                    continue
                consumed.add(rel)
                if lst is None:
                    if res is not None:
                        bad(rel)     # stray
                else:
                    rule(rel, res, lst)

    if start is not None and start.kind == 'dir':
        visit(path, start, 0)
    for full, lst in ents.items():
        if full not in consumed:
            rule(full, resolve(fs, full), lst)
    return v


# ---------------------------------------------------------------------------------------
# running the real loader on a model

def world(c):
    """the world a scenario context runs in: its model, or (stage-2 replay / validation)
    the same tree materialised on the real filesystem"""
    return getattr(c, 'world', None) or c.fs


def run_verify(fs, top='Manifest', path='', last_mtime=None, fail_handler=None,
               allow_xdev=True):
    """Real ManifestRecursiveLoader(...).assert_directory_verifies on the model (or on a
    RealWorld).  Returns a short outcome string."""
    from gemato.exceptions import (ManifestMismatch, ManifestIncompatibleEntry,
                                   ManifestSyntaxError, ManifestCrossDevice,
                                   ManifestSymlinkLoop, GematoException)
    from gemato.recursiveloader import ManifestRecursiveLoader
    from vf.modelfs import FuelExhausted
    kw = {}
    if fail_handler is not None:
        kw['fail_handler'] = fail_handler
    with fs.installed():
        try:
            m = ManifestRecursiveLoader(posixpath.join(fs.root_path, top),
                                        verify_openpgp=False,
                                        allow_xdev=allow_xdev)
            ret = m.assert_directory_verifies(path, last_mtime=last_mtime, **kw)
            if ret is True:
                return 'true'
            if ret is False:
                return 'false'
            return 'other'
        except ManifestMismatch:
            return 'mismatch'
        except ManifestIncompatibleEntry:
            return 'incompatible'
        except ManifestSyntaxError:
            return 'syntax'
        except ManifestCrossDevice:
            return 'xdev'
        except ManifestSymlinkLoop:
            return 'loop'
        except FuelExhausted:
            return 'nonterminating'
        except OSError as e:
            return 'oserror:%s' % e.errno
        except GematoException as e:
            return 'error:' + type(e).__name__
        except (AssertionError, AttributeError, KeyError, IndexError, TypeError,
                ValueError, NotImplementedError, UnboundLocalError, OverflowError) as e:
            return crash_origin(e)


def expected_outcomes(v):
    """Set of outcomes of a strict (raising) verification the oracle allows."""
    if v.chain_error == 'mismatch':
        return ('mismatch',)
    if v.chain_error == 'syntax':
        return ('syntax', 'mismatch')
    if v.incompatible:
        return ('incompatible',)
    if v.offending:
        return ('mismatch',)
    if v.maybe:
        return ('true', 'mismatch')
    return ('true',)


# ---------------------------------------------------------------------------------------
# exactness of written Manifests (C03) - evaluated on the model after update+save

def in_use_manifests(fs, top_name):
    """Every Manifest reachable from the top through MANIFEST entries, with link problems."""
    acc = [(top_name, posixpath.dirname(top_name), resolve(fs, top_name).entries)]
    problems = []
    seen = {top_name}
    i = 0
    while i < len(acc):
        mpath, d, entries = acc[i]
        i += 1
        for e in entries:
            if e.tag != 'MANIFEST':
                continue
            mp = posixpath.join(d, e.path)
            node = resolve(fs, mp)
            if node is None or node.kind != 'file':
                problems.append(f'MANIFEST entry in {mpath} names missing file {mp}')
                continue
            if not file_matches(node, e):
                problems.append(f'MANIFEST entry for {mp} in {mpath} does not carry its '
                                f'true size/digests')
            if mp in seen:
                continue
            seen.add(mp)
            if node.entries is not None and not node.invalid:
                acc.append((mp, posixpath.dirname(mp), node.entries))
    return acc, problems


def oracle_exact(fs, top_name, upath, hashes):
    """Problems (empty list = the Manifests describe the tree under `upath` exactly)."""
    acc, problems = in_use_manifests(fs, top_name)
    want = sorted(hashes)
    file_entries = {}
    ignores = []
    for mpath, d, entries in acc:
        for e in entries:
            if e.tag in ('DIST', 'TIMESTAMP'):
                continue
            full = posixpath.join(d, e.path)
            if e.tag == 'IGNORE':
                ignores.append(full)
            else:
                file_entries.setdefault(full, []).append((mpath, e))

    def ignored(rel):
        return any(cw_prefix(rel, ig) for ig in ignores)

    def visit(dir_rel, node, depth):
        if depth > 12:
            return
        for name, child in node.children.items():
            if name.startswith('.'):
                continue
            rel = posixpath.join(dir_rel, name)
            if ignored(rel):
                continue
            res = child
            if child.kind == 'symlink':
                res = resolve(fs, rel)
            if res is None:
                continue
            if res.kind == 'dir':
                visit(rel, res, depth + 1)
            elif res.kind == 'file':
                if rel == top_name:
                    continue
                lst = file_entries.get(rel, [])
                if len(lst) != 1:
                    problems.append(f'{rel}: covered by {len(lst)} file entries')
                    continue
                mpath, e = lst[0]
                if not file_matches(res, e):
                    problems.append(f'{rel}: entry in {mpath} does not carry the true '
                                    f'size/digests')
                if e.tag != 'MANIFEST' and sorted(e.checksums) != want:
                    problems.append(f'{rel}: hash set {sorted(e.checksums)} != {want}')
    start = resolve(fs, upath)
    if start is not None and start.kind == 'dir':
        visit(upath, start, 0)
    for full, lst in file_entries.items():
        if not cw_prefix(full, upath):
            continue
        node = resolve(fs, full)
        if node is None or node.kind != 'file':
            problems.append(f'{full}: entry for a file that does not exist')
    return problems


def run_update(fs, top='Manifest', path='', hashes=('MD5',), sort=False, force=False,
               last_mtime=None, loader_kw=None, save_kw=None, rounds=1):
    """Real ManifestRecursiveLoader: update_entries_for_directory + save_manifests."""
    from gemato.exceptions import GematoException
    from gemato.recursiveloader import ManifestRecursiveLoader
    from vf.modelfs import FuelExhausted
    with fs.installed():
        try:
            for _ in range(rounds):
                m = ManifestRecursiveLoader(posixpath.join(fs.root_path, top),
                                            verify_openpgp=False, hashes=list(hashes),
                                            sort=sort, **(loader_kw or {}))
                kw = {}
                if last_mtime is not None:
                    kw['last_mtime'] = last_mtime
                m.update_entries_for_directory(path, **kw)
                m.save_manifests(force=force, **(save_kw or {}))
            return 'saved'
        except GematoException as e:
            return 'error:' + type(e).__name__
        except FuelExhausted:
            return 'nonterminating'
        except OSError as e:
            return 'oserror:%s' % e.errno
        except (AssertionError, AttributeError, KeyError, IndexError, TypeError,
                ValueError, NotImplementedError, UnboundLocalError) as e:
            # an internal error escaping the library is C18's subject, not a completed
            # update; callers decide what to make of it
            return crash_origin(e)
