"""
Scenario plumbing: a scenario is a function ``build(v)`` that asks a value supplier ``v``
for named values (ints, bools, digest tokens, choices) - always the same names in the same
order - and returns a context object.  ``make_cond`` turns (scenario, check) into a Cond
whose signature is the list of requested names minus the ones fixed by the partition.
"""
import inspect

from vf.engine import Cond

from vf import sym
from vf.sym import untraced


class V:
    def __init__(self, values=None):
        self.values = values
        self.spec = []          # (name, type, lo, hi)
        self._seen = set()

    def _get(self, name, typ, default, lo=None, hi=None):
        if name not in self._seen:
            self._seen.add(name)
            self.spec.append((name, typ, lo, hi))
        if self.values is None:
            return default
        return self.values[name]

    def int(self, name, lo=None, hi=None):
        return self._get(name, int, lo if lo is not None else 0, lo, hi)

    def size(self, name):
        return self._get(name, int, 0, 0, None)

    def bool(self, name):
        """concrete bool (forks the path when the value is symbolic)"""
        return sym.b(self._get(name, bool, False))

    def symbool(self, name):
        return self._get(name, bool, False)

    def dig(self, name):
        """content token: any one-character string (1.1 M values; only equality matters;
        a fixed length keeps CrossHair from forking on lengths at every comparison)"""
        return self._get(name, str, '', 0, 1)

    def choice(self, name, n):
        """concrete index in range(n) (forks the path when the value is symbolic)"""
        return sym.pick_index(self._get(name, int, 0, 0, n - 1), n)

    def lazychoice(self, name, n):
        """like choice, but the fork happens only when the result is called"""
        raw = self._get(name, int, 0, 0, n - 1)
        return lambda: sym.pick_index(raw, n)


def discover(build):
    v = V(None)
    build(v)
    return v.spec


def make_cond(name, build, run, judge=None, fixed=None, timeout=120, **kw):
    """build(v) -> ctx  (untraced) ; run(ctx) -> outcome (traced: the real gemato code) ;
    judge(ctx, outcome) -> (ok, interesting)  (untraced: the oracle).
    With judge=None, run(ctx) returns (ok, interesting) itself and is traced as a whole."""
    check = run
    fixed = dict(fixed or {})
    spec = discover(build)
    names = [s[0] for s in spec]
    for k in fixed:
        assert k in names, (k, names)
    free = [s for s in spec if s[0] not in fixed]
    ns = {'_build': build, '_run': run, '_judge': judge, '_fixed': fixed, '_V': V,
          '_untraced': untraced}
    for n, t, lo, hi in free:
        ns['_t_' + n] = t
    params = ', '.join(f'{n}: _t_{n}' for n, t, lo, hi in free)
    asg = ', '.join(f'{n!r}: {n}' for n, t, lo, hi in free)
    src = (f'def _body({params}):\n'
           f'    with _untraced():\n'
           f'        vals = dict(_fixed)\n'
           f'        vals.update({{{asg}}})\n'
           f'        ctx = _build(_V(vals))\n'
           f'    out = _run(ctx)\n'
           f'    if _judge is None:\n'
           f'        return out\n'
           f'    with _untraced():\n'
           f'        return _judge(ctx, out)\n')
    clauses = []
    for n, t, lo, hi in free:
        if t is int:
            if lo is not None:
                clauses.append(f'{n} >= {lo}')
            if hi is not None:
                clauses.append(f'{n} <= {hi}')
        elif t is str:
            clauses.append(f'len({n}) == {hi}')
    src += (f'def _pre({params}):\n'
            f'    return {" and ".join(clauses) if clauses else "True"}\n')
    exec(src, ns)
    body, pre = ns['_body'], ns['_pre']
    body.__name__ = body.__qualname__ = name
    body.__module__ = check.__module__
    body.__vf_src__ = check
    pre.__vf_src__ = check
    c = Cond(name, body, pre, timeout=timeout, **kw)
    c.spec = spec
    c.fixed = fixed
    return c


def partitions(names_and_ranges):
    """All assignments of the given (name, iterable) pairs, as dicts."""
    out = [{}]
    for n, rng in names_and_ranges:
        out = [dict(d, **{n: x}) for d in out for x in rng]
    return out
