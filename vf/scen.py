"""
Scenario plumbing: a scenario is a function ``build(v)`` that asks a value supplier ``v``
for named values (ints, bools, digest tokens, choices) - always the same names in the same
order - and returns a context object.  ``make_cond`` turns (scenario, check) into a Cond
whose signature is the list of requested names minus the ones fixed by the partition.
"""
import inspect

from vf.engine import Cond

from vf import sym
from vf.sym import untraced


class V:
    def __init__(self, values=None):
        self.values = values
        self.spec = []          # (name, type, lo, hi)
        self.assumes = []       # (predicate, names)
        self._seen = set()

    def _get(self, name, typ, default, lo=None, hi=None):
        if name not in self._seen:
            self._seen.add(name)
            self.spec.append((name, typ, lo, hi))
        if self.values is None:
            return default
        return self.values[name]

    def int(self, name, lo=None, hi=None):
        return self._get(name, int, lo if lo is not None else 0, lo, hi)

    def size(self, name):
        return self._get(name, int, 0, 0, None)

    def bool(self, name):
        """concrete bool (forks the path when the value is symbolic)"""
        return sym.b(self._get(name, bool, False))

    def symbool(self, name):
        return self._get(name, bool, False)

    def dig(self, name):
        """content token: any one-character string (1.1 M values; only equality matters;
        a fixed length keeps CrossHair from forking on lengths at every comparison)"""
        return self._get(name, str, '', 0, 1)

    def assume(self, pred, *names):
        """extra precondition over named values (part of the claim; listed in evidence)"""
        self.assumes.append((pred, names))

    def filetoken(self, size_name, dig_name):
        """size and content token of a regular file, under the real-world invariant that an
        empty file has the digest of the empty string (token 'E')"""
        s, d = self.size(size_name), self.dig(dig_name)
        self.assume(_empty_inv, size_name, dig_name)
        return s, d

    def choice(self, name, n):
        """concrete index in range(n) (forks the path when the value is symbolic)"""
        return sym.pick_index(self._get(name, int, 0, 0, n - 1), n)

    def lazychoice(self, name, n):
        """like choice, but the fork happens only when the result is called"""
        raw = self._get(name, int, 0, 0, n - 1)
        return lambda: sym.pick_index(raw, n)


def _empty_inv(size, dig):
    return size >= 1 or dig == 'E'


def discover(build):
    v = V(None)
    build(v)
    return v.spec, v.assumes


def make_cond(name, build, run, judge=None, fixed=None, timeout=120, **kw):
    """build(v) -> ctx  (untraced) ; run(ctx) -> outcome (traced: the real gemato code) ;
    judge(ctx, outcome) -> (ok, interesting)  (untraced: the oracle).
    With judge=None, run(ctx) returns (ok, interesting) itself and is traced as a whole."""
    check = run
    fixed = dict(fixed or {})
    spec, assumes = discover(build)
    names = [s[0] for s in spec]
    for k in fixed:
        assert k in names, (k, names)
    free = [s for s in spec if s[0] not in fixed]
    ns = {'_build': build, '_run': run, '_judge': judge, '_fixed': fixed, '_V': V,
          '_untraced': untraced}
    for n, t, lo, hi in free:
        ns['_t_' + n] = t
    params = ', '.join(f'{n}: _t_{n}' for n, t, lo, hi in free)
    asg = ', '.join(f'{n!r}: {n}' for n, t, lo, hi in free)
    src = (f'def _body({params}):\n'
           f'    with _untraced():\n'
           f'        vals = dict(_fixed)\n'
           f'        vals.update({{{asg}}})\n'
           f'        ctx = _build(_V(vals))\n'
           f'    out = _run(ctx)\n'
           f'    if _judge is None:\n'
           f'        return out\n'
           f'    with _untraced():\n'
           f'        return _judge(ctx, out)\n')
    clauses = []
    for n, t, lo, hi in free:
        if t is int:
            if lo is not None:
                clauses.append(f'{n} >= {lo}')
            if hi is not None:
                clauses.append(f'{n} <= {hi}')
        elif t is str:
            clauses.append(f'len({n}) == {hi}')
    ns['_assumes'] = assumes
    for i, (pred, anames) in enumerate(assumes):
        ns[f'_a{i}'] = pred
        argl = ', '.join(n if n not in fixed else f'_fixed[{n!r}]' for n in anames)
        clauses.append(f'_a{i}({argl})')
    src += (f'def _pre({params}):\n'
            f'    return {" and ".join(clauses) if clauses else "True"}\n')
    exec(src, ns)
    body, pre = ns['_body'], ns['_pre']

    def replay_real(args):
        """stage 2: the same scenario instance as a real directory tree, unpatched gemato"""
        from vf import realfs, modelfs
        vals = dict(fixed)
        vals.update(args)
        ctx = build(V(vals))
        ctx.world = realfs.RealWorld(ctx.fs)
        try:
            out = run(ctx)
            ok, _ = judge(ctx, out)
            return {'reproduced': not ok, 'real_outcome': repr(out)[:300]}
        except realfs.NotMaterialisable as e:
            return {'reproduced': None, 'note': f'not materialisable: {e}'}
        finally:
            ctx.world.close()
            modelfs.uninstall_global()
    body.__name__ = body.__qualname__ = name
    body.__module__ = check.__module__
    body.__vf_src__ = check
    pre.__vf_src__ = check
    def compare(args):
        from vf import realfs, modelfs
        vals = dict(fixed)
        vals.update(args)
        ctx = build(V(vals))
        om = run(ctx)
        obs_m = _obs(ctx, om)
        ctx2 = build(V(vals))
        ctx2.world = realfs.RealWorld(ctx2.fs)
        try:
            orl = run(ctx2)
        except realfs.NotMaterialisable:
            return {'skip': True}
        finally:
            ctx2.world.close()
            modelfs.uninstall_global()
        return {'model': obs_m, 'real': _obs(ctx2, orl)}

    real = kw.pop('real', True)
    c = Cond(name, body, pre, timeout=timeout, **kw)
    if real and judge is not None:
        c.replay_real = replay_real
        c.compare = compare
    c.spec = spec
    c.fixed = fixed
    return c


def partitions(names_and_ranges):
    """All assignments of the given (name, iterable) pairs, as dicts."""
    out = [{}]
    for n, rng in names_and_ranges:
        out = [dict(d, **{n: x}) for d in out for x in rng]
    return out


def _obs(ctx, out):
    """comparable view of an outcome: entries by (tag, path), handler calls as a sorted
    list (the order of directory enumeration differs between model and real scandir)"""
    def norm(x):
        if hasattr(x, 'tag') and hasattr(x, 'path'):
            return (x.tag, x.path)
        if isinstance(x, (tuple, list)):
            return tuple(norm(y) for y in x)
        return x
    ob = getattr(ctx, 'observed', None)
    if isinstance(ob, list):
        ob = sorted(ob, key=repr)
    r = repr((norm(out), ob))
    root = getattr(ctx, 'root_used', None)
    return r.replace(root, '/r') if root and root != '/r' else r


def validate_against_real(conds, seed, per_cond=1, limit=40):
    """Model validation: concrete instances of scenario conditions are run on the model and
    on the same tree materialised on the real filesystem with the unpatched gemato; the
    outcomes must agree.  Returns (agreements, details, errors)."""
    import random
    import inspect as _inspect
    from vf import realfs, modelfs
    rnd = random.Random(seed)
    conds = [c for c in conds if getattr(c, 'replay_real', None) is not None]
    rnd.shuffle(conds)
    agree, details, errors = 0, [], []
    for c in conds[:limit]:
        sig = _inspect.signature(c.body)
        for _ in range(per_cond):
            for attempt in range(30):
                args = {}
                for k, p in sig.parameters.items():
                    if p.annotation is int:
                        args[k] = rnd.choice([0, 1, 1, 2, 3])
                    elif p.annotation is bool:
                        args[k] = rnd.random() < 0.5
                    else:
                        args[k] = rnd.choice(['a', 'b', 'E', 'D', 'F'])
                if c.pre is None or c.pre(**args):
                    break
            else:
                continue
            m = c.compare(args)
            if m.get('skip'):
                continue
            if m['model'] == m['real']:
                agree += 1
                if len(details) < 6:
                    details.append({'condition': c.name, 'args': args,
                                    'outcome': m['model']})
            else:
                errors.append(f'{c.name}: model {m["model"]} != real {m["real"]} for '
                              f'{args}')
    return agree, details, errors
