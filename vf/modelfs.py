"""
Layer M: an in-memory model of a directory tree on which the *real* gemato loader runs.

Names and nesting are concrete (one scenario = one skeleton); sizes, mtimes, digests, device
ids, presence bits, entry fields and options may be symbolic (CrossHair proxies).  Nothing
in /repo is edited: for the duration of ``with fs.installed():`` the module-level names
``os`` (+ ``open``, ``fcntl``, ``hash_file``, ``open_potentially_compressed_path``) of
gemato.verify / gemato.recursiveloader / gemato.find_top_level are rebound to proxies of
this model, and ``ManifestFile.load`` / ``ManifestFile.dump`` are wrapped so that a
Manifest node's content is its list of entry objects (text parsing and serialisation are
decided separately on the real parser: C04/C08/C09).
"""
import errno
import os as _os
import posixpath
import stat as _stat

import gemato.find_top_level as g_ftl
import gemato.manifest as g_manifest
import gemato.recursiveloader as g_rl
import gemato.verify as g_verify
from gemato.exceptions import ManifestSyntaxError

from vf import sym
from vf.sym import ut as _ut

ROOT = '/r'
HASH_PREFIX = {'md5': 'm', 'sha1': 's', 'sha256': 't', 'sha512': 'u', 'blake2b': 'b'}
MHASH_PREFIX = {'MD5': 'm', 'SHA1': 's', 'SHA256': 't', 'SHA512': 'u', 'BLAKE2B': 'b'}


class SeamBypassed(BaseException):
    """gemato wrote a Manifest without going through ManifestFile.dump(file): the model
    cannot know what was written.  Reported as a harness error ("cannot attach"), never as
    a violation.  (BaseException: must not be swallowed by the code under test.)"""


class _NulByte(ValueError):
    """what the real os functions raise for a path with a NUL (intended model behaviour)"""


def crash_origin(e):
    """An internal error that was raised by harness code (innermost frame inside /verif/vf)
    is a defect of the harness, not an outcome of gemato: turn it into a harness error."""
    tb = e.__traceback__
    last = None
    while tb is not None:
        last = tb
        tb = tb.tb_next
    if last is not None and not isinstance(e, _NulByte):
        fn = last.tb_frame.f_code.co_filename
        if '/vf/' in fn and '/gemato/' not in fn:
            raise SeamBypassed(f'harness defect: {type(e).__name__}: {e} raised in '
                               f'{fn}:{last.tb_lineno}') from e
    return 'crash:' + type(e).__name__


class FuelExhausted(Exception):
    """The model walk produced more directories than any terminating walk could."""


class Node:
    __slots__ = ('kind', 'dev', 'ino', 'size', 'st_size', 'mtime', 'digest', 'children',
                 'target', 'entries', 'invalid', 'signed', 'is_manifest', 'unreadable', 'text')

    def __init__(self, kind, dev=1, ino=0):
        self.kind = kind
        self.dev = dev
        self.ino = ino
        self.size = 0
        self.st_size = None      # None = same as size
        self.mtime = 0
        self.digest = ''
        self.children = None
        self.target = None
        self.entries = None
        self.invalid = False
        self.signed = False
        self.is_manifest = False
        self.unreadable = None   # errno raised by open()
        self.text = None         # lines written by the real dump() (render mode only)


_MODE = {
    'dir': _stat.S_IFDIR | 0o755, 'file': _stat.S_IFREG | 0o644,
    'fifo': _stat.S_IFIFO | 0o644, 'socket': _stat.S_IFSOCK | 0o644,
    'chardev': _stat.S_IFCHR | 0o644,
}


class StatResult:
    __slots__ = ('st_mode', 'st_dev', 'st_ino', 'st_size', 'st_mtime')

    def __init__(self, node):
        self.st_mode = _MODE[node.kind]
        self.st_dev = node.dev
        self.st_ino = node.ino
        if node.kind == 'file':
            self.st_size = node.size if node.st_size is None else node.st_size
        else:
            self.st_size = 0
        self.st_mtime = node.mtime


@_ut
def copy_entry(e):
    t = e.tag
    if t == 'IGNORE':
        return g_manifest.ManifestEntryIGNORE(e.path)
    if t == 'TIMESTAMP':
        return g_manifest.ManifestEntryTIMESTAMP(e.ts)
    if t == 'AUX':
        return g_manifest.ManifestEntryAUX(e.aux_path, e.size, dict(e.checksums))
    return type(e)(e.path, e.size, dict(e.checksums))


def entry_key(e):
    """Plain-data view of an entry (for comparisons in oracles)."""
    t = e.tag
    if t == 'IGNORE':
        return (t, e.path)
    if t == 'TIMESTAMP':
        return (t, e.ts)
    return (t, e.path, e.size, tuple(sorted(e.checksums.items())))


def mk(tag, path, size=0, **ck):
    """Build a real gemato entry; checksum values are content tokens (see digest_for)."""
    if tag == 'IGNORE':
        return g_manifest.ManifestEntryIGNORE(path)
    if tag == 'AUX':
        return g_manifest.ManifestEntryAUX(path, size, dict(ck))
    return g_manifest.new_manifest_entry(tag, path, size, dict(ck))


def digest_for(mhash, token):
    """Value of Manifest hash `mhash` for content token `token`.  Two contents have equal
    digests under an algorithm iff their tokens are equal (collision freedom), and digests
    of different algorithms never coincide (distinct prefixes)."""
    return sym.cat(MHASH_PREFIX[mhash], token)


class _Handle:
    """What open_potentially_compressed_path() yields for a model file."""

    def __init__(self, fs, path, node, mode):
        self.fs, self.path, self.node, self.mode = fs, path, node, mode
        self.fd = None
        self.lines = []
        self.dumped = False
        self.buffer = self

    # context manager protocol of the real return values (file object / FileStack)
    def __enter__(self):
        return self

    def __exit__(self, *a):
        if self.fd is not None:
            self.fs._fds.pop(self.fd, None)
        if self.mode == 'w' and not self.dumped and a[0] is None:
            raise SeamBypassed(f'{self.path} was written without ManifestFile.dump()')
        return False

    def fileno(self):
        if self.fd is None:
            self.fd = self.fs._new_fd(self.node)
        return self.fd

    def write(self, s):
        self.lines.append(s)

    def flush(self):
        pass

    def tell(self):
        # number of (uncompressed) bytes written: a property of the logical Manifest if the
        # scenario says so (size_of), else taken from the symbolic size supply; recorded
        key = self.path
        for suf in ('.gz', '.bz2', '.lzma', '.xz'):
            if key.endswith(suf):
                key = key[:-len(suf)]
        if key in self.fs.size_of:
            sz = self.fs.size_of[key]
        else:
            sz = self.fs._next_written_size()
        # what stat() will report: the uncompressed size for a plain file, an unrelated
        # (scenario-given) size for a compressed one
        if key != self.path and key in self.fs.disk_size_of:
            self.node.size = self.fs.disk_size_of[key]
        else:
            self.node.size = sz
        return sz

    def __iter__(self):
        raise AssertionError('model Manifest handles are consumed by the load() wrapper')


class ModelFS:
    root_path = ROOT

    def __init__(self, written_sizes=(), walk_fuel=64):
        self.root = Node('dir', ino=1)
        self.root.children = {}
        self._ino = 1
        self._fds = {}
        self._fdn = 40
        self.log = []                 # (op, path) for every mutation of the tree
        self.reads = []               # Manifest loads: (path, verified?) ghost log
        self.written_sizes = [*written_sizes]
        self.size_of = {}             # logical Manifest path -> uncompressed size
        self.sysroot = None           # optional node standing for '/'
        self.dump_args = []           # (path, sign_openpgp as passed, keyid) per dump
        self.render = False           # run the real dump() (text rendering) in model runs
        self.ndumps, self.dump_fault_at, self.dump_fault_fired = 0, None, None
        self.disk_size_of = {}        # logical Manifest path -> size on disk when compressed
        self._wtok = 0
        self.walk_fuel = walk_fuel
        self.ncalls = 0
        self.fault_at = None
        self.fault_errno = errno.EIO
        self.fault_fired = None
        self.calls = []
        self.walk_order = None        # optional: dirpath -> permutation function
        self.hashed = []              # paths whose content was read
        self.loaded = []              # Manifest paths parsed (in order)

    # ---- construction --------------------------------------------------------------
    def _alloc(self, kind, dev=1):
        self._ino += 1
        return Node(kind, dev=dev, ino=self._ino)

    def _parent(self, path, create=True):
        assert path.startswith(ROOT), path
        rel = path[len(ROOT):].strip('/')
        parts = rel.split('/') if rel else []
        cur = self.root
        for p in parts[:-1]:
            nxt = cur.children.get(p)
            if nxt is None:
                assert create, path
                nxt = self._alloc('dir', dev=cur.dev)
                nxt.children = {}
                cur.children[p] = nxt
            cur = nxt
        return cur, (parts[-1] if parts else '')

    def add_dir(self, rel, dev=None):
        par, name = self._parent(posixpath.join(ROOT, rel))
        n = self._alloc('dir', dev=par.dev if dev is None else dev)
        n.children = {}
        par.children[name] = n
        return n

    def add_file(self, rel, size=0, digest='', mtime=0, st_size=None, kind='file',
                 dev=None):
        par, name = self._parent(posixpath.join(ROOT, rel))
        n = self._alloc(kind, dev=par.dev if dev is None else dev)
        n.size, n.digest, n.mtime, n.st_size = size, digest, mtime, st_size
        par.children[name] = n
        return n

    def add_manifest(self, rel, entries, size=0, digest='', mtime=0, invalid=False,
                     signed=False):
        n = self.add_file(rel, size=size, digest=digest, mtime=mtime)
        n.entries = [*entries]
        n.is_manifest = True
        n.invalid = invalid
        n.signed = signed
        return n

    def add_symlink(self, rel, target_rel):
        par, name = self._parent(posixpath.join(ROOT, rel))
        n = self._alloc('symlink', dev=par.dev)
        n.target = target_rel        # path relative to ROOT ('' = ROOT itself)
        par.children[name] = n
        return n

    # ---- resolution ----------------------------------------------------------------
    def lookup(self, path, follow=True, _depth=0):
        """Node at absolute model path (after normalisation), or None.  Raises
        NotADirectoryError when a component is not a directory, OSError(ELOOP) on a
        symlink chain longer than 40."""
        path = posixpath.normpath(path)
        if path == '/' and self.sysroot is not None:
            return self.sysroot
        if path != ROOT and not path.startswith(ROOT + '/'):
            return None
        rel = path[len(ROOT):].strip('/')
        cur = self.root
        if not rel:
            return cur
        parts = rel.split('/')
        for i, p in enumerate(parts):
            if cur.kind != 'dir':
                raise NotADirectoryError(errno.ENOTDIR, 'Not a directory', path)
            nxt = cur.children.get(p)
            if nxt is None:
                return None
            last = i == len(parts) - 1
            if nxt.kind == 'symlink' and (follow or not last):
                if _depth > 40:
                    raise OSError(errno.ELOOP, 'Too many levels of symbolic links', path)
                nxt = self.lookup(posixpath.join(ROOT, nxt.target), True, _depth + 1)
                if nxt is None:
                    return None
            cur = nxt
        return cur

    def exists(self, rel):
        try:
            return self.lookup(posixpath.join(ROOT, rel)) is not None
        except OSError:
            return False

    def node(self, rel):
        return self.lookup(posixpath.join(ROOT, rel))

    # ---- bookkeeping ---------------------------------------------------------------
    def _tick(self, what, path=None):
        i = self.ncalls
        self.ncalls += 1
        self.calls.append((what, path))
        if self.fault_at is not None and sym.eq(i, self.fault_at):
            self.fault_fired = (what, path)
            raise OSError(self.fault_errno, 'injected fault', path)

    def _new_fd(self, node):
        self._fdn += 1
        self._fds[self._fdn] = node
        return self._fdn

    def _next_written_size(self):
        if self.written_sizes:
            return self.written_sizes.pop(0)
        return 1000 + len(self.log)

    def _next_token(self):
        self._wtok += 1
        return 'W%d' % self._wtok

    # ---- os-level operations -------------------------------------------------------
    @_ut
    def os_open(self, path, flags):
        if '\0' in path:
            raise _NulByte('embedded null byte')      # what the real os.open does
        self._tick('open', path)
        node = self.lookup(path)
        if node is None:
            raise FileNotFoundError(errno.ENOENT, 'No such file or directory', path)
        if node.kind == 'socket':
            raise OSError(errno.ENXIO, 'No such device or address', path)
        if node.unreadable is not None:
            raise OSError(node.unreadable, 'injected', path)
        return self._new_fd(node)

    @_ut
    def os_fstat(self, fd):
        self._tick('fstat', fd)
        return StatResult(self._fds[fd])

    @_ut
    def os_stat(self, path):
        if '\0' in path:
            raise _NulByte('embedded null byte')
        self._tick('stat', path)
        node = self.lookup(path)
        if node is None:
            raise FileNotFoundError(errno.ENOENT, 'No such file or directory', path)
        return StatResult(node)

    @_ut
    def os_lstat(self, path):
        self._tick('stat', path)
        node = self.lookup(path, follow=False)
        if node is None:
            raise FileNotFoundError(errno.ENOENT, 'No such file or directory', path)
        if node.kind == 'symlink':
            raise NotImplementedError('model lstat of a symlink')
        return StatResult(node)

    @_ut
    def os_close(self, fd):
        self._fds.pop(fd, None)

    @_ut
    def os_unlink(self, path):
        par, name = self._parent(path, create=False)
        if name not in par.children:
            raise FileNotFoundError(errno.ENOENT, 'No such file or directory', path)
        self.log.append(('unlink', path))
        del par.children[name]

    def os_replace(self, src, dst):
        """rename(2) within the model: the node moves, an existing file at dst is replaced"""
        spar, sname = self._parent(src, create=False)
        if sname not in spar.children:
            raise FileNotFoundError(errno.ENOENT, 'No such file or directory', src)
        dpar, dname = self._parent(dst, create=False)
        old = dpar.children.get(dname)
        if old is not None and old.kind == 'dir':
            raise IsADirectoryError(errno.EISDIR, 'Is a directory', dst)
        self.log.append(('replace', src, dst))
        dpar.children[dname] = spar.children.pop(sname)

    def os_walk(self, top, topdown=True, onerror=None, followlinks=False):
        """The documented protocol of os.walk: top-down, the caller may prune `dirnames`
        in place, scandir errors go to `onerror`, symlinks to directories are listed under
        dirnames and descended into only with followlinks."""
        assert topdown
        err, node, dirs, nondirs = self._scandir(top)
        if err is not None:
            if isinstance(err, FuelExhausted):
                raise err
            if onerror is not None:
                onerror(err)
            return
        yield top, dirs, nondirs
        for d in dirs:
            new = _PathProxy.join(top, d)
            if followlinks or node.children[d].kind != 'symlink':
                yield from self.os_walk(new, topdown, onerror, followlinks)

    @_ut
    def _scandir(self, top):
        self.walk_fuel -= 1
        if self.walk_fuel < 0:
            return FuelExhausted(top), None, None, None
        try:
            self._tick('scandir', top)
            node = self.lookup(top)
            if node is None:
                raise FileNotFoundError(errno.ENOENT, 'No such file or directory', top)
            if node.kind != 'dir':
                raise NotADirectoryError(errno.ENOTDIR, 'Not a directory', top)
        except OSError as err:
            return err, None, None, None
        names = [*node.children]
        if self.walk_order is not None:
            names = self.walk_order(top, names)
        dirs, nondirs = [], []
        for name in names:
            child = node.children[name]
            if child.kind == 'symlink':
                try:
                    res = self.lookup(posixpath.join(top, name))
                except OSError:
                    res = None
                isdir = res is not None and res.kind == 'dir'
            else:
                isdir = child.kind == 'dir'
            (dirs if isdir else nondirs).append(name)
        return None, node, dirs, nondirs

    # ---- Manifest-level operations -------------------------------------------------
    @_ut
    def open_manifest(self, path, mode, **kw):
        assert 'encoding' in kw or 'b' in mode
        if '\0' in path:
            raise _NulByte('embedded null byte')      # what the real open() does
        if 'r' in mode:
            self._tick('open', path)
            node = self.lookup(path)
            if node is None:
                raise FileNotFoundError(errno.ENOENT, 'No such file or directory', path)
            if node.kind == 'dir':
                raise IsADirectoryError(errno.EISDIR, 'Is a directory', path)
            if node.unreadable is not None:
                raise OSError(node.unreadable, 'injected', path)
            return _Handle(self, path, node, 'r')
        par = self.lookup(posixpath.dirname(path))
        if par is None:
            raise FileNotFoundError(errno.ENOENT, 'No such file or directory', path)
        name = posixpath.basename(path)
        node = par.children.get(name)
        self.log.append(('write', path))
        if node is None or node.kind != 'file':
            node = self._alloc('file', dev=par.dev)
            par.children[name] = node
        node.is_manifest = True
        node.entries = []
        node.invalid = False
        node.signed = False
        node.digest = self._next_token()
        return _Handle(self, path, node, 'w')

    def installed(self):
        return _Installed(self)


def _untraced(fn):
    return _ut(fn)


_CUR = [None]
RENDER = [False]


def cur():
    fs = _CUR[0]
    if fs is None:
        raise RuntimeError('gemato touched the filesystem seam outside a model run')
    return fs


class _PathProxy:
    sep = posixpath.sep
    join = staticmethod(_untraced(posixpath.join))
    dirname = staticmethod(_untraced(posixpath.dirname))
    basename = staticmethod(_untraced(posixpath.basename))
    splitext = staticmethod(_untraced(posixpath.splitext))
    normpath = staticmethod(_untraced(posixpath.normpath))
    # both absolute or both relative in every gemato call site: cwd-independent
    relpath = staticmethod(_untraced(posixpath.relpath))

    @staticmethod
    @_ut
    def isdir(path):
        n = _PathProxy._probe(path)
        return n is not None and n.kind == 'dir'

    _PURE = ('commonprefix', 'commonpath', 'split', 'isabs', 'normcase', 'splitdrive',
             'curdir', 'pardir', 'extsep', 'altsep', 'pathsep', 'defpath', 'devnull')

    def __getattr__(self, name):
        # pure string functions are the real ones; anything else that would look at the
        # real filesystem is a seam the model does not cover
        if name in self._PURE:
            f = getattr(posixpath, name)
            return _untraced(f) if callable(f) else f
        raise SeamBypassed(f'os.path.{name} is not modelled')

    @staticmethod
    def _probe(path, follow=True):
        """os.path.exists & co: a stat() whose every OSError means False"""
        fs = cur()
        try:
            if '\0' in path:
                raise _NulByte('embedded null byte')
            fs._tick('stat', path)
            return fs.lookup(path, follow)
        except (OSError, ValueError):
            return None

    @staticmethod
    @_ut
    def exists(path):
        return _PathProxy._probe(path) is not None

    @staticmethod
    @_ut
    def lexists(path):
        return _PathProxy._probe(path, False) is not None

    @staticmethod
    @_ut
    def isfile(path):
        n = _PathProxy._probe(path)
        return n is not None and n.kind == 'file'

    @staticmethod
    @_ut
    def islink(path):
        n = _PathProxy._probe(path, False)
        return n is not None and n.kind == 'symlink'


class _OsProxy:
    O_RDONLY = _os.O_RDONLY
    O_NONBLOCK = _os.O_NONBLOCK
    path = _PathProxy()

    @staticmethod
    def open(path, flags):
        return cur().os_open(path, flags)

    @staticmethod
    def fstat(fd):
        return cur().os_fstat(fd)

    @staticmethod
    def stat(path):
        return cur().os_stat(path)

    @staticmethod
    def close(fd):
        return cur().os_close(fd)

    @staticmethod
    def unlink(path):
        return cur().os_unlink(path)

    @staticmethod
    def walk(top, topdown=True, onerror=None, followlinks=False):
        return cur().os_walk(top, topdown, onerror, followlinks)

    @staticmethod
    def replace(src, dst):
        return cur().os_replace(src, dst)

    rename = replace

    @staticmethod
    def lstat(path):
        return cur().os_lstat(path)

    def __getattr__(self, name):
        import os as _o
        if name in ('sep', 'curdir', 'pardir', 'linesep', 'name', 'fspath', 'fsencode',
                    'fsdecode', 'strerror', 'error', 'getpid', 'environ', 'getcwd',
                    'cpu_count', 'PathLike') or name.startswith(('O_', 'S_', 'F_', 'EX_')):
            return getattr(_o, name)
        raise SeamBypassed(f'os.{name} is not modelled')

    @staticmethod
    def listdir(path):
        err, node, dirs, nondirs = cur()._scandir(path)
        if err is not None:
            raise err
        return dirs + nondirs


class _FileObj:
    def __init__(self, fs, fd):
        self.fs, self.fd = fs, fd

    def __enter__(self):
        return self

    def __exit__(self, *a):
        self.fs.os_close(self.fd)
        return False


class _Fcntl:
    F_SETFL = 4

    @staticmethod
    def fcntl(fd, op, arg):
        return 0


_REAL_LOAD = g_manifest.ManifestFile.load
_REAL_DUMP = g_manifest.ManifestFile.dump
_OSP = _OsProxy()


@_ut
def _m_open(fd, mode='r', *a, **kw):
    assert mode == 'rb', mode
    fs = cur()
    fs._tick('fdopen', fd)
    return _FileObj(fs, fd)


@_ut
def _m_hash_file(fobj, hashes, _apparent_size=0):
    fs = cur()
    node = fs._fds[fobj.fd]
    fs._tick('read', fobj.fd)
    fs.hashed.append(node)
    ret = {}
    for h in hashes:
        if h == '__size__':
            ret[h] = node.size
        elif h in HASH_PREFIX:
            ret[h] = sym.cat(HASH_PREFIX[h], node.digest)
        else:
            # as gemato.hash.get_hash_by_name: known to this Python's hashlib or unsupported
            import hashlib
            from gemato.exceptions import UnsupportedHash
            if h not in hashlib.algorithms_available:
                raise UnsupportedHash(h)
            ret[h] = sym.cat(h[:4] + ':', node.digest)
    return ret


def _m_open_manifest(path, mode, **kw):
    return cur().open_manifest(path, mode, **kw)


@_ut
def _m_load(mf, f, verify_openpgp=True, openpgp_env=None):
    if not isinstance(f, _Handle):
        with sym.traced():
            return _REAL_LOAD(mf, f, verify_openpgp, openpgp_env)
    fs = f.fs
    node = f.node
    fs.loaded.append(f.path)
    mf.entries = []
    mf.openpgp_signed = False
    mf.openpgp_signature = None
    if node.invalid or node.entries is None:
        raise ManifestSyntaxError('model: not a Manifest')
    mf.entries = [copy_entry(e) for e in node.entries]
    if node.signed and verify_openpgp:
        mf.openpgp_signature = 'model-signature'
        mf.openpgp_signed = True


def _m_dump(mf, f, sign_openpgp=None, openpgp_keyid=None, openpgp_env=None, sort=False):
    if not isinstance(f, _Handle):
        return _REAL_DUMP(mf, f, sign_openpgp, openpgp_keyid, openpgp_env, sort)
    f.fs.dump_args.append((f.path, sign_openpgp, openpgp_keyid))
    f.dumped = True
    _dump_fault(f)
    if sign_openpgp is None:
        sign_openpgp = mf.openpgp_signed
    n0 = len(f.lines)
    if RENDER[0] or f.fs.render:
        # the real dump does the sorting and renders every entry (to_list/join)
        _REAL_DUMP(mf, f, sign_openpgp=False, sort=sort)
        order = _order_from_text(mf, f.lines[n0:])
        f.node.text = [*f.lines[n0:]]
    else:
        # the real dump runs as well - its sorting (in place or not), its iteration and its
        # writes are the real code - but every entry renders as a token naming the object
        # (str() of symbolic sizes is expensive and nothing reads the text here; rendering
        # is decided on the real code in C08/C12/C14)
        order = _token_dump(mf, f, sort)
    _snapshot(f, order, sign_openpgp, openpgp_keyid)


@_ut
def _dump_fault(f):
    """fault plan for the save step: the k-th dump of the run fails with ENOSPC before it
    has written anything (disk full)"""
    fs = f.fs
    k = fs.ndumps
    fs.ndumps = k + 1
    if fs.dump_fault_at is not None and sym.eq(fs.dump_fault_at, k):
        fs.dump_fault_fired = f.path
        raise OSError(errno.ENOSPC, 'No space left on device (injected)', f.path)


_ENTRY_CLASSES = tuple({*g_manifest.MANIFEST_TAG_MAPPING.values()})


@_ut
def _tokens_install(mf):
    ents = [*mf.entries]
    index = {id(e): i for i, e in enumerate(ents)}

    def tok(self):
        return ['@%d' % index[id(self)]]
    saved = [(cls, cls.__dict__.get('to_list', _tokens_install)) for cls in _ENTRY_CLASSES]
    for cls in _ENTRY_CLASSES:
        cls.to_list = tok
    return ents, saved


@_ut
def _tokens_restore(saved):
    for cls, fn in saved:
        if fn is _tokens_install:
            del cls.to_list
        else:
            cls.to_list = fn


@_ut
def _tokens_order(ents, lines):
    out = []
    for ln in lines:
        if not (ln.startswith('@') and ln.endswith('\n') and ln[1:-1].isdigit()):
            raise SeamBypassed('ManifestFile.dump wrote something that is not an entry line')
        out.append(ents[int(ln[1:-1])])
    return out


def _token_dump(mf, f, sort):
    n0 = len(f.lines)
    ents, saved = _tokens_install(mf)
    try:
        _REAL_DUMP(mf, f, sign_openpgp=False, sort=sort)
    finally:
        _tokens_restore(saved)
    return _tokens_order(ents, f.lines[n0:])


@_ut
def _order_from_text(mf, lines):
    """entries in the order of the lines the real dump wrote (concrete values only)"""
    pool = [(' '.join(e.to_list()) + '\n', e) for e in mf.entries]
    out = []
    for ln in lines:
        for i, (text, e) in enumerate(pool):
            if text == ln:
                out.append(e)
                del pool[i]
                break
        else:
            raise SeamBypassed('ManifestFile.dump wrote a line that renders no entry')
    return out


@_ut
def _snapshot(f, order, sign_openpgp, openpgp_keyid):
    f.node.entries = [copy_entry(e) for e in order]
    f.node.signed = bool(sign_openpgp)
    f.fs.log.append(('dump', f.path, bool(sign_openpgp), openpgp_keyid))


SEAMS = (
    (g_verify, 'os', _OSP), (g_verify, 'fcntl', _Fcntl), (g_verify, 'open', _m_open),
    (g_verify, 'hash_file', _m_hash_file),
    (g_rl, 'os', _OSP), (g_rl, 'open_potentially_compressed_path', _m_open_manifest),
    (g_ftl, 'os', _OSP), (g_ftl, 'open_potentially_compressed_path', _m_open_manifest),
    (g_manifest.ManifestFile, 'load', _m_load), (g_manifest.ManifestFile, 'dump', _m_dump),
)
_ORIG = {}


def install_global():
    """Rebind the seams once per process (idempotent).  A seam that has disappeared from
    the source means the harness cannot attach: error, never a silent pass."""
    for mod, name, val in SEAMS:
        if name != 'open' and name not in mod.__dict__:
            raise RuntimeError(f'seam {mod.__name__}.{name} is gone: cannot attach')
        if mod.__dict__.get(name) is not val:
            _ORIG.setdefault((mod, name), mod.__dict__.get(name, _ORIG))
            setattr(mod, name, val)


def uninstall_global():
    for (mod, name), old in _ORIG.items():
        if old is _ORIG:
            try:
                delattr(mod, name)
            except AttributeError:
                pass
        else:
            setattr(mod, name, old)
    _ORIG.clear()


class _Installed:
    def __init__(self, fs):
        self.fs = fs

    @_ut
    def __enter__(self):
        install_global()
        self.prev = _CUR[0]
        _CUR[0] = self.fs
        return self.fs

    @_ut
    def __exit__(self, *a):
        _CUR[0] = self.prev
        return False
