"""
Tracing discipline.  CrossHair's opcode tracer makes every Python-level call ~1 ms; the
subject code (gemato) must run under it, harness bookkeeping need not.  Harness code runs
inside ``untraced()`` and touches symbolic values only through the helpers below, each of
which resumes tracing for one primitive operation and returns a *concrete* result (forking
the path through the solver as usual).  Outside CrossHair all of this is a no-op, so the
same harness code is the concrete replay.
"""
import contextlib

try:
    from crosshair.tracers import NoTracing, ResumedTracing, is_tracing
except Exception:  # pragma: no cover
    NoTracing = ResumedTracing = None

    def is_tracing():
        return False

_depth = 0


@contextlib.contextmanager
def untraced():
    global _depth
    if NoTracing is not None and is_tracing():
        _depth += 1
        try:
            with NoTracing():
                yield
        finally:
            _depth -= 1
    else:
        yield


@contextlib.contextmanager
def traced():
    if _depth > 0 and not is_tracing():
        with ResumedTracing():
            yield
    else:
        yield


def ut(fn):
    """decorator: run fn outside the tracer"""
    import functools

    @functools.wraps(fn)
    def w(*a, **kw):
        with untraced():
            return fn(*a, **kw)
    return w


def b(x):
    with traced():
        return True if x else False


def eq(a, c):
    with traced():
        return True if a == c else False


def ne(a, c):
    with traced():
        return True if a != c else False


def le(a, c):
    with traced():
        return True if a <= c else False


def lt(a, c):
    with traced():
        return True if a < c else False


def cat(a, c):
    with traced():
        return a + c


def add(a, c):
    with traced():
        return a + c


def pick_index(idx, n):
    """concrete value of a possibly symbolic index in range(n)"""
    with traced():
        for i in range(n - 1):
            if idx == i:
                return i
        return n - 1


def pick(seq, idx):
    return seq[pick_index(idx, len(seq))]


def mul(a, c):
    with traced():
        return a * c
