"""C16 - tree walks always terminate and respect filesystem boundaries."""
import posixpath

from vf import tree
from vf.modelfs import ModelFS, ROOT, FuelExhausted, mk, digest_for
from vf.scen import make_cond, partitions

from gemato.exceptions import (GematoException, ManifestCrossDevice, ManifestSymlinkLoop)
from gemato.recursiveloader import ManifestRecursiveLoader

PROPERTY = 'C16'
TARGETS = (None, '', 'a', 'a/b', 'c')
SLOTS = ('a/b/l1', 'c/l2', 'l3')
IGNORES = (None, 'a/b/l1', 'c/l2', 'l3', 'a', 'c')
WALKERS = ('assert_directory_verifies', 'load_unregistered_manifests',
           'update_entries_for_directory')


class Ctx:
    pass


def traverse(fs, ignores, mdev):
    """The definition, by DFS over the link graph: a loop is a walk path that reaches the
    identity of one of its own ancestors; ignored subtrees are not entered."""
    res = {'files': [], 'loop': False, 'xdev': False}

    def ignored(rel):
        return any(tree.cw_prefix(rel, ig) for ig in ignores)

    def visit(rel, ancestors, depth):
        node = tree.resolve(fs, rel)
        ident = (node.dev, node.ino)
        if ident in ancestors:
            res['loop'] = True
            return
        if depth > 10:
            res['loop'] = True
            return
        if node.dev != mdev:
            res['xdev'] = True
        for name in node.children:
            if name.startswith('.'):
                continue
            r = posixpath.join(rel, name)
            if ignored(r):
                continue
            ch = tree.resolve(fs, r)
            if ch is None:
                continue
            if ch.kind == 'dir':
                visit(r, ancestors + [ident], depth + 1)
            elif r != 'Manifest':
                res['files'].append(r)
                if ch.dev != mdev:
                    res['xdev'] = True
    visit('', [], 0)
    return res


def s_link(v):
    c = Ctx()
    fs = c.fs = ModelFS(written_sizes=[5, 6], walk_fuel=40)
    other = c.other = v.bool('c_other_dev')
    fs.add_dir('a')
    fs.add_dir('a/b')
    fs.add_dir('c', dev=2 if other else 1)
    fs.add_file('a/b/y', size=1, digest='y')
    # an empty mount point: only the directory itself reveals the other filesystem
    c.mnt = v.bool('mnt_other_dev')
    fs.add_dir('a/mnt', dev=3 if c.mnt else 1)
    fs.add_file('c/x', size=2, digest='x')
    for i, slot in enumerate(SLOTS):
        t = TARGETS[v.choice(f't{i + 1}', len(TARGETS))]
        if t is not None:
            fs.add_symlink(slot, t)
    # a sibling whose name merely starts like "a", holding a link to "a" (not a loop)
    fs.add_dir('ax')
    fs.add_file('ax/w', size=1, digest='w')
    if v.bool('ax_link'):
        fs.add_symlink('ax/peer', 'a')
    ig = IGNORES[v.choice('ignore', len(IGNORES))]
    c.ignores = [ig] if ig is not None else []
    c.ofs = v.bool('one_file_system')
    c.walker = WALKERS[v.choice('walker', 3)]
    c.exp = traverse(fs, c.ignores, 1)
    ents = [mk('IGNORE', i) for i in c.ignores]
    for p in c.exp['files']:
        n = tree.resolve(fs, p)
        ents.append(mk('DATA', p, n.size, MD5=digest_for('MD5', n.digest)))
    fs.add_manifest('Manifest', ents)
    return c


def run_walk(c):
    fs = tree.world(c)
    with fs.installed():
        try:
            m = ManifestRecursiveLoader(posixpath.join(fs.root_path, 'Manifest'),
                                        verify_openpgp=False, hashes=['MD5'],
                                        allow_xdev=not c.ofs)
            if c.walker == 'assert_directory_verifies':
                # keep-going handler: mismatches met on the way (e.g. the copy of the
                # top-level Manifest seen through a link) must not mask structural errors
                m.assert_directory_verifies('', fail_handler=lambda e: True)
                return 'true'
            if c.walker == 'load_unregistered_manifests':
                m.load_unregistered_manifests('')
                return 'true'
            m.update_entries_for_directory('')
            return 'true'
        except ManifestSymlinkLoop:
            return 'loop'
        except ManifestCrossDevice:
            return 'xdev'
        except FuelExhausted:
            return 'nonterminating'
        except GematoException as e:
            return 'error:' + type(e).__name__
        except RecursionError:
            return 'nonterminating'


def judge_walk(c, out):
    exp = c.exp
    allowed = []
    if exp['loop']:
        allowed.append('loop')
    xdev = exp['xdev'] and c.ofs
    if c.walker == 'load_unregistered_manifests':
        # this walker looks at directories only
        xdev = c.ofs and any(tree.resolve(c.fs, posixpath.dirname(p)).dev != 1
                             for p in exp['files'])
        xdev = xdev or (c.ofs and _dir_on_other_dev(c))
    if exp['loop'] and c.ofs and (c.other or c.mnt):
        # gemato notices a first-level link to the top directory one level late (the top
        # path carries a trailing slash), i.e. after it has looked at the link's children;
        # a directory on another device reached through that link path is not IGNOREd by
        # an IGNORE on its original path, so the cross-device error is as legitimate
        xdev = True
    if xdev:
        allowed.append('xdev')
    if not allowed:
        allowed = ['true']
    return out in allowed, exp['loop']


def _dir_on_other_dev(c):
    hit = []

    def ignored(rel):
        return any(tree.cw_prefix(rel, ig) for ig in c.ignores)

    def visit(rel, ancestors, depth):
        node = tree.resolve(c.fs, rel)
        ident = (node.dev, node.ino)
        if ident in ancestors or depth > 10:
            return
        if node.dev != 1:
            hit.append(rel)
        for name in node.children:
            r = posixpath.join(rel, name)
            if name.startswith('.') or ignored(r):
                continue
            ch = tree.resolve(c.fs, r)
            if ch is not None and ch.kind == 'dir':
                visit(r, ancestors + [ident], depth + 1)
    visit('', [], 0)
    return bool(hit)


# ---- S-xdev: every kind of object, including a sub-Manifest file, may sit elsewhere --------

XIGN = (None, 'f', 'd', 'd/g', 'd/Manifest')
XOBJ = ('f', 'd', 'd/g', 'd/Manifest', 'd/e', 'd/e/h')


def s_xdev(v):
    c = Ctx()
    fs = c.fs = ModelFS(written_sizes=[5, 6], walk_fuel=40)
    devs = {o: (2 if v.bool('x_' + o.replace('/', '_')) else 1) for o in XOBJ}
    ig = XIGN[v.choice('ignore', len(XIGN))]
    c.ignores = [ig] if ig is not None else []
    c.ofs = v.bool('one_file_system')
    c.walker = WALKERS[v.choice('walker', 3)]
    want_sub, want_g = v.bool('sub_manifest'), v.bool('g_in_sub')
    sub = want_sub and ig not in ('d', 'd/Manifest')
    g_in_sub = sub and want_g
    fs.add_file('f', size=1, digest='f', dev=devs['f'])
    fs.add_dir('d', dev=devs['d'])
    fs.add_file('d/g', size=2, digest='g', dev=devs['d/g'])
    fs.add_dir('d/e', dev=devs['d/e'])
    fs.add_file('d/e/h', size=3, digest='h', dev=devs['d/e/h'])
    top = [mk('IGNORE', i) for i in c.ignores]

    def ignored(rel):
        return any(tree.cw_prefix(rel, i) for i in c.ignores)
    subents = []
    for rel, size, tok in (('f', 1, 'f'), ('d/g', 2, 'g'), ('d/e/h', 3, 'h')):
        if ignored(rel):
            continue
        if g_in_sub and rel.startswith('d/'):
            subents.append(mk('DATA', rel[2:], size, MD5=digest_for('MD5', tok)))
        else:
            top.append(mk('DATA', rel, size, MD5=digest_for('MD5', tok)))
    c.sub = sub
    if sub:
        mn = fs.add_manifest('d/Manifest', subents, size=9, digest='S')
        mn.dev = devs['d/Manifest']
        top.append(mk('MANIFEST', 'd/Manifest', 9, MD5=digest_for('MD5', 'S')))
    fs.add_manifest('Manifest', top)
    objs = [o for o in XOBJ if (o != 'd/Manifest' or sub)]
    c.visible = [o for o in objs if not ignored(o)]
    c.foreign = [o for o in c.visible if devs[o] != 1]
    c.foreign_dirs = [o for o in c.foreign if o in ('d', 'd/e')]
    return c


def judge_xdev(c, out):
    if c.walker == 'load_unregistered_manifests':
        # this walker looks at directories only (it neither verifies nor records files)
        exp = 'xdev' if (c.ofs and c.foreign_dirs) else 'true'
    else:
        exp = 'xdev' if (c.ofs and c.foreign) else 'true'
    return out == exp, bool(c.foreign) and c.ofs


def conditions(tier):
    cs = []
    full = tier != 'quick'
    parts = [('walker', range(3)), ('t1', range(5)), ('t2', range(5))]
    for fx in partitions(parts):
        nm = f'link_w{fx["walker"]}_t{fx["t1"]}{fx["t2"]}'
        cs.append(make_cond(
            nm, s_link, run_walk, judge_walk, fx, timeout=300, group='M-link',
            twin=(fx['t1'] == 0 and fx['t2'] == 0),
            descr=f'{WALKERS[fx["walker"]]} on directories a, a/b, c with symlink slots '
                  'a/b/l1, c/l2, l3 whose targets are symbolic over {none, root, a, a/b, c}; '
                  'model walk with fuel (exhaustion = non-termination)',
            bounds='3 link slots x 5 targets (self/parent/ancestor/sibling/mutual/chains), '
                   'look-alike sibling ax with an optional link to a, '
                   'IGNORE on a link or above it or none (6 choices), directory c on another '
                   'device or not, empty mount point a/mnt on another device or not, '
                   'one-file-system on/off'))
    for fx in partitions([('walker', range(3)), ('ignore', range(len(XIGN))),
                          ('sub_manifest', (False, True))]):
        nm = f'xdev_w{fx["walker"]}_i{fx["ignore"]}_s{int(fx["sub_manifest"])}'
        cs.append(make_cond(
            nm, s_xdev, run_walk, judge_xdev, fx, timeout=300, group='M-xdev', real=False,
            twin=(fx['ignore'] == 0),
            descr=f'{WALKERS[fx["walker"]]} on a tree f, d/{{g,Manifest,e/h}} where every '
                  'object - files, directories and the sub-Manifest file itself (bind mount '
                  'or link of a file) - has its own symbolic device: in one-file-system mode '
                  'a non-ignored object elsewhere gives the cross-device error, otherwise '
                  'the walk succeeds',
            bounds='6 objects x 2 devices, IGNORE on none/f/d/d/g/d/Manifest, entries of d '
                   'in the top-level or in the sub-Manifest, one-file-system on/off'))
    return cs


ASSUMPTIONS = ['os.walk(followlinks=True) protocol as documented; directory identity = '
               '(st_dev, st_ino)', 'all files consistent with their entries (no mismatch '
               'noise): outcomes are true / loop / cross-device']
OUTSIDE = ['more than 3 links / 4 directories', 'mismatching files combined with loops']
STUBS = ['ModelFS seams incl. the model os.walk with a fuel counter']


def validate(seed, tier):
    """the same link graphs as real symlinks on the real filesystem (instances without a
    device boundary), unpatched gemato: outcome must equal the model run"""
    from vf.scen import validate_against_real
    return validate_against_real(conditions('quick'), seed, per_cond=2, limit=40)
