"""C02 - sub-Manifests are trusted only through an unbroken hash chain from the top."""
import posixpath

from vf import sym, tree
from vf.modelfs import ModelFS, ROOT, mk, digest_for, entry_key
from vf.scen import make_cond, partitions

from gemato.exceptions import (ManifestMismatch, ManifestIncompatibleEntry,
                               ManifestSyntaxError)
from gemato.recursiveloader import ManifestRecursiveLoader

PROPERTY = 'C02'


class Ctx:
    pass


def md5(tok):
    return digest_for('MD5', tok)


def make_chain(names):
    """Manifest -> d1/<names[0]> -> d1/d2/<names[1]> -> d1/d2/d3/<names[2]>; one data file
    per level; a DIST entry at the bottom and one (other size) at the top."""
    depth = len(names)

    def s_chain(v):
        c = Ctx()
        fs = c.fs = ModelFS()
        dirs = ['', 'd1', 'd1/d2', 'd1/d2/d3', 'd1/d2/d3/d4'][:depth + 1]
        if names[0].startswith('./'):
            # the first link stays in the top directory (Manifest -> Manifest.a -> d1/...)
            dirs = ['', '', 'd1', 'd1/d2', 'd1/d2/d3'][:depth + 1]
        mnames = ['Manifest'] + [posixpath.join(dirs[i + 1], names[i].replace('./', ''))
                                 for i in range(depth)]
        c.mnames = mnames
        c.dirs = dirs
        link = []
        for i in range(depth):
            link.append((*v.filetoken(f'm{i + 1}_size', f'm{i + 1}_dig'),
                         v.size(f'l{i + 1}_size'), v.dig(f'l{i + 1}_dig')))
        f_size, f_dig = v.filetoken('f_size', 'f_dig')
        e_size, e_dig = v.size('e_size'), v.dig('e_dig')
        dist_size = v.size('dist_size')
        for i in range(depth, -1, -1):
            d = dirs[i]
            ents = []
            if i < depth:
                ls, ld = link[i][2], link[i][3]
                ents.append(mk('MANIFEST', posixpath.relpath(mnames[i + 1], d or '.'),
                               ls, MD5=md5(ld)))
            # one consistent file per level
            fn = 'g%d' % i
            fs.add_file(posixpath.join(d, fn), size=i + 1, digest='G')
            ents.append(mk('DATA', fn, i + 1, MD5=md5('G')))
            if i == depth:
                fs.add_file(posixpath.join(d, 'f'), size=f_size, digest=f_dig)
                ents.append(mk('DATA', 'f', e_size, MD5=md5(e_dig)))
                ents.append(mk('DIST', 'x.tar', dist_size, MD5=md5('X')))
            if i == 0:
                ents.append(mk('DIST', 'x.tar', 77, MD5=md5('Y')))
                fs.add_manifest(mnames[0], ents)
            else:
                fs.add_manifest(mnames[i], ents, size=link[i - 1][0], digest=link[i - 1][1])
        c.api = v.choice('api', 5)
        c.pidx = v.choice('pidx', depth + 1)
        # other loader calls made before the query (a loader is normally long-lived)
        c.warmup = v.choice('warmup', 3)
        return c
    return s_chain


APIS = ('assert_directory_verifies', 'verify_path', 'assert_path_verifies',
        'find_path_entry', 'find_dist_entry')


def run_api(c):
    fs = tree.world(c)
    depth = len(c.dirs) - 1
    d = c.dirs[c.pidx]
    api = APIS[c.api]
    c.target = target = posixpath.join(d, 'f' if c.pidx == depth else 'g%d' % c.pidx)
    c.qpath = d if api in ('assert_directory_verifies', 'find_dist_entry') else target
    with fs.installed():
        try:
            m = ManifestRecursiveLoader(posixpath.join(fs.root_path, 'Manifest'),
                                        verify_openpgp=False)
            try:
                if c.warmup == 1:
                    m.find_timestamp()
                elif c.warmup == 2:
                    m.find_dist_entry('nonexistent.tar', '')
            except ManifestMismatch:
                pass
            if api == 'assert_directory_verifies':
                return ('ret', m.assert_directory_verifies(d))
            if api == 'verify_path':
                r = m.verify_path(target)
                return ('ret', r[0])
            if api == 'assert_path_verifies':
                return ('ret', m.assert_path_verifies(target))
            if api == 'find_path_entry':
                return ('ret', m.find_path_entry(target))
            return ('ret', m.find_dist_entry('x.tar', d))
        except ManifestMismatch as e:
            return ('mismatch', e.path)
        except ManifestIncompatibleEntry:
            return ('incompatible', None)
        except ManifestSyntaxError:
            return ('syntax', None)


def judge_api(c, out):
    fs = c.fs
    api = APIS[c.api]
    depth = len(c.dirs) - 1
    recursive = api == 'assert_directory_verifies'
    ch = tree.load_chain(fs, 'Manifest', c.qpath, recursive=recursive)
    accepted = {a[0] for a in ch.accepted}
    # (a) ghost: nothing that is not accepted through matching links was ever parsed
    for p in fs.loaded:
        rel = posixpath.relpath(p, ROOT)
        if rel not in accepted:
            return False, True
    kind, val = out
    if ch.error:
        # (b) a broken link needed for the query: ManifestMismatch naming a broken link,
        # and no result
        ok = kind == 'mismatch' and val in ch.broken
        return ok, True
    # (c) all needed links intact: the result is the oracle's
    if api == 'assert_directory_verifies':
        o = tree.oracle_verify(fs, 'Manifest', c.qpath, first_only=True)
        exp = tree.expected_outcomes(o)
        got = 'true' if (kind == 'ret' and val is True) else kind
        return got in exp, False
    if api in ('verify_path', 'assert_path_verifies'):
        node = tree.resolve(fs, c.target)
        ents = tree.collect_entries(ch, c.target).get(c.target, [])
        match = all(tree.file_matches(node, e) for e in ents) and bool(ents)
        if api == 'verify_path':
            return kind == 'ret' and val == match, False
        if match:
            return kind == 'ret', False
        return kind == 'mismatch' and val == c.target, False
    if api == 'find_path_entry':
        ents = tree.collect_entries(ch, c.target).get(c.target, [])
        return (kind == 'ret' and val is not None and len(ents) == 1
                and _same(val, ents[0])), False
    # find_dist_entry: the DIST entry of the most specific accepted Manifest
    want = None
    for mpath, d, entries in sorted(ch.accepted, key=lambda a: -len(a[1])):
        for e in entries:
            if e.tag == 'DIST' and e.path == 'x.tar' and want is None:
                want = e
    return (kind == 'ret' and val is not None and want is not None
            and _same(val, want)), False


def _same(e1, e2):
    if e1.tag != e2.tag or e1.path != e2.path:
        return False
    if sym.ne(e1.size, e2.size):
        return False
    if sorted(e1.checksums) != sorted(e2.checksums):
        return False
    for h in e1.checksums:
        if sym.ne(e1.checksums[h], e2.checksums[h]):
            return False
    return True


def conditions(tier):
    cs = []
    if tier == 'quick':
        layouts = [('c3', ('Manifest.gz', 'Manifest', 'Manifest.xz')),
                   ('s3', ('./Manifest.a', 'Manifest.bz2', 'Manifest'))]
    else:
        layouts = [('c3', ('Manifest.gz', 'Manifest', 'Manifest.xz')),
                   ('s3', ('./Manifest.a', 'Manifest.bz2', 'Manifest')),
                   ('c4', ('Manifest', 'Manifest.bz2', 'Manifest.lzma', 'Manifest')),
                   ('s4', ('./Manifest.a', './Manifest.b.gz', 'Manifest', 'Manifest.xz'))]
    for lname, names in layouts:
        sc = make_chain(names)
        depth = len(names)
        for fx in partitions([('api', range(5)), ('pidx', range(depth + 1))]):
            nm = f'chain_{lname}_{APIS[fx["api"]]}_p{fx["pidx"]}'
            cs.append(make_cond(
                nm, sc, run_api, judge_api, fx, timeout=300 if tier == 'quick' else 1200, group='M-chain',
                twin=(fx['pidx'] == depth),
                descr=f'{APIS[fx["api"]]} at level {fx["pidx"]} of a depth-{depth} Manifest '
                      f'chain ({names}); every Manifest file (size,digest) and every MANIFEST '
                      'entry (size,digest) independent symbols; optionally find_timestamp() or a '
                      'DIST lookup on the same loader first',
                bounds=f'depth {depth}; one file per level + symbolic bottom file/entry; '
                       'sizes any int>=0, digests any 1-char token'))
    return cs


ASSUMPTIONS = [
    'Manifest text parsing is replaced by entry objects held in the model (C04/C08/C09 '
    'decide the parser); compression is a property of the name only (codecs are C code)',
    'hash functions are collision free: digests are equal iff content tokens are equal',
]
OUTSIDE = ['depth > 4', 'decompression bombs', 'several Manifests per directory (see C13)']
STUBS = ['gemato.recursiveloader.os / gemato.verify.os,open,fcntl,hash_file -> ModelFS',
         'ManifestFile.load -> entries of the model node']


def validate(seed, tier):
    from vf.scen import validate_against_real
    return validate_against_real(conditions('quick'), seed, per_cond=2, limit=20)
