"""C08 - Manifest text round-trips: writer and parser are mutual inverses."""
import datetime
import io

from vf import sym
from vf.engine import Cond, specialise

import gemato.manifest as gm
from gemato.exceptions import ManifestSyntaxError
from gemato.manifest import (ManifestFile, ManifestPathEntry, ManifestEntryIGNORE,
                             ManifestEntryTIMESTAMP, ManifestEntryAUX, new_manifest_entry)

PROPERTY = 'C08'

_real_int = int


def model_int(s, base=10):
    """Exact, symbolic-friendly model of the builtin int(str, 16) for strings of hex digits
    (the only strings gemato's escape regex lets through): digit arithmetic over ord().
    Everything else is passed to the real builtin.  Validated against the builtin on
    concrete samples in validate()."""
    if base != 16:
        return _real_int(s) if base == 10 else _real_int(s, base)
    v = 0
    for ch in s:
        o = ord(ch)
        if 48 <= o <= 57:
            d = o - 48
        elif 97 <= o <= 102:
            d = o - 87
        elif 65 <= o <= 70:
            d = o - 55
        else:
            return _real_int(s, base)
        v = v * 16 + d
    return v


_real_chr = chr


def model_chr(v):
    """builtin chr() with its CPython error contract spelled out for the engine: values that
    do not fit a C int raise OverflowError, other values outside range(0x110000) raise
    ValueError (validated against the builtin in validate())"""
    if v > 0x7FFFFFFF or v < -0x80000000:
        raise OverflowError('Python int too large to convert to C int')
    if v < 0 or v > 0x10FFFF:
        raise ValueError('chr() arg not in range(0x110000)')
    return _real_chr(v)


class IntModel:
    def __enter__(self):
        self.had = 'int' in gm.__dict__
        self.had_chr = 'chr' in gm.__dict__
        gm.int = model_int
        gm.chr = model_chr

    def __exit__(self, *a):
        if not self.had:
            del gm.int
        if not self.had_chr:
            del gm.chr
        return False


LEFT = ('', 'p', '\\', '\\x', ' ', '0')
RIGHT = ('', 'q', 'x41', 'u0041', '0', 'F', '\\', ' ')
TAGS = ('DATA', 'MANIFEST', 'MISC', 'EBUILD', 'DIST', 'IGNORE', 'AUX')
SIZES = (0, 1, 2 ** 64, 10 ** 30)
CKS = ({}, {'MD5': 'd41d8cd98f00b204e9800998ecf8427e'},
       {'SHA1': 'da39', 'BLAKE2B': '786a', 'MD5': 'd41d'})


def valid_path(p):
    return p != '' and p[0] != '/'


# (a) path escaping is invertible, for any code point in any of the listed contexts
def k_path_roundtrip(left: int, right: int, c: str):
    p = LEFT[left] + c + RIGHT[right]
    if not valid_path(p):
        return True, False
    enc = ManifestEntryIGNORE(p).encoded_path
    back = ManifestPathEntry.process_path(['IGNORE', enc])
    return back == p, c == '\\'


def k_char_pre(left: int, right: int, c: str):
    return len(c) == 1


# (b) the encoded form is one non-empty token: no whitespace, no control characters
def k_path_token(left: int, right: int, c: str):
    p = LEFT[left] + c + RIGHT[right]
    if p == '':
        return True, False
    enc = ManifestEntryIGNORE(p).encoded_path
    ok = len(enc) > 0
    for ch in enc:
        o = ord(ch)
        if ch.isspace() or o < 32 or 127 <= o <= 159:
            ok = False
    return ok, c == ' '


# (c) entry <-> field list, every tag
def mk_entry(tag, path, size, ck):
    if tag == 'IGNORE':
        return new_manifest_entry('IGNORE', path)
    return new_manifest_entry(tag, path, size, dict(ck))


PSHAPES = ('p{c}q', '{c}q', 'p{c}', '{c}')


def k_entry_roundtrip(tag: int, size: int, ck: int, c: str, shape: int = 0):
    t = TAGS[tag]
    if t == 'DIST' and c == '/':
        return True, False
    path = PSHAPES[shape].replace('{c}', c)
    if path[0] == '/':
        return True, False          # not a valid (relative) entry path
    e = mk_entry(t, path, SIZES[sym.pick_index(size, len(SIZES))], CKS[ck])
    fields = e.to_list()
    for f in fields:
        if f == '' or f != f.strip() or ' ' in f or '\t' in f or '\n' in f:
            return False, True
    e2 = type(e).from_list(list(fields))
    same = e2 == e and e2.path == e.path
    if t != 'IGNORE':
        same = same and e2.size == e.size and e2.checksums == e.checksums
    return same, c == ' '


def k_entry_pre(tag: int, size: int, ck: int, c: str, shape: int = 0):
    return len(c) == 1 and 0 <= size < len(SIZES)


TS = (datetime.datetime(1, 1, 1, 0, 0, 0), datetime.datetime(2017, 11, 2, 23, 59, 59),
      datetime.datetime(9999, 12, 31, 23, 59, 59), datetime.datetime(1970, 1, 1))


def k_timestamp_roundtrip(i: int):
    e = ManifestEntryTIMESTAMP(TS[i])
    f = e.to_list()
    e2 = ManifestEntryTIMESTAMP.from_list(list(f))
    return e2 == e and len(f) == 2 and ' ' not in f[1], True


# (d) file level: load(dump(entries)) == entries, one line per entry, single spaces
FTAGS = ('DATA', 'IGNORE', 'AUX', 'DIST')
FCKS = ({}, {'MD5': 'd4'}, {'SHA1': 'da', 'BLAKE2B': '78', 'MD5': 'd4'})


def k_file_roundtrip(t1: int, ck: int, sort: bool, c: str):
    if FTAGS[t1] == 'DIST' and c == '/':
        return True, False
    # (the entry with the free code point comes last: text after a symbolic line has
    # symbolic offsets, which makes the solver's work explode without adding coverage)
    es = [mk_entry('DATA', 'A/c', 2, FCKS[1]),
          mk_entry(FTAGS[t1], 'a' + c, 1, FCKS[ck])]
    m = ManifestFile()
    m.entries = list(es)
    f = _Chunks()
    m.dump(f, sort=sort)
    # one write per entry; each chunk is exactly one line: no newline inside, one at the end
    if len(f.chunks) != 2:
        return False, True
    # (fields are blank-free and non-empty by entry_roundtrip_*)
    for ch, e in zip(f.chunks, sorted(es) if sort else es):
        if ch != ' '.join(e.to_list()) + '\n':
            return False, True
    # a text file yields exactly these lines back (established above), so the parser is
    # fed the lines themselves - keeping the line boundaries concrete for the solver
    m2 = ManifestFile()
    m2.load(iter(f.chunks), verify_openpgp=False)
    want = sorted(es) if sort else es
    return (len(m2.entries) == 2
            and all(x == y and x.tag == y.tag for x, y in zip(m2.entries, want))), c == ' '


class _Chunks:
    def __init__(self):
        self.chunks = []

    def write(self, s):
        self.chunks.append(s)


def k_file_pre(t1: int, ck: int, sort: bool, c: str):
    return len(c) == 1


# (e) canonical fixed point: whatever the parser accepts is written in a form the parser
# accepts again with an equal result
ESC = (('x', 2), ('u', 4), ('U', 8))
POS = (('', 'b'), ('a', 'b'), ('a', ''), ('', ''))


def make_fixed_point(kind, n, pre_s, post_s, lead=''):
    def k_fixed_point(h: str):
        field = pre_s + '\\' + kind + lead + h + post_s
        with IntModel():
            try:
                p = ManifestPathEntry.process_path(['IGNORE', field])
            except ManifestSyntaxError:
                return True, False
            enc = ManifestEntryIGNORE(p).encoded_path
            try:
                p2 = ManifestPathEntry.process_path(['IGNORE', enc])
            except ManifestSyntaxError:
                return False, True
        return p2 == p, True

    def pre(h: str):
        return len(h) == n - len(lead)
    return k_fixed_point, pre


def make_entry_fixed_point(tag, kind, n, lead):
    """whatever <tag>.from_list accepts is written by to_list in a form it accepts again"""
    def k_entry_fixed_point(h: str):
        fields = [tag, 'a\\' + kind + lead + h + 'b'] + ([] if tag == 'IGNORE' else ['0'])
        cls = gm.MANIFEST_TAG_MAPPING[tag]
        with IntModel():
            try:
                e = cls.from_list(list(fields))
            except ManifestSyntaxError:
                return True, False
            try:
                e2 = cls.from_list(list(e.to_list()))
            except ManifestSyntaxError:
                return False, True
        return e2 == e and e2.path == e.path, True

    def pre(h: str):
        return len(h) == n - len(lead)
    return k_entry_fixed_point, pre


# (f) transparent (de)compression: layers chosen by suffix, text layer iff text mode, every
# layer closed on exit and on error
import gemato.compression as g_comp  # noqa: E402

CNAMES = ('Manifest', 'Manifest.gz', 'Manifest.bz2', 'Manifest.lzma', 'Manifest.xz',
          'Manifest.GZ', 'Manifest.gzip', 'a.gz/Manifest', 'Manifest.gz.bak')
CMODES = ('r', 'w', 'rb', 'wb')


class _Layer:
    def __init__(self, log, kind, *a, **kw):
        self.log, self.kind, self.closed = log, kind, False
        log.append(('open', kind, a, kw, self))

    def close(self):
        self.closed = True
        self.log.append(('close', self.kind))

    def __enter__(self):
        return self

    def __exit__(self, *a):
        self.close()


def k_open_compressed(name: int, mode: int, fail_at: int):
    with sym.untraced():
        nm = CNAMES[sym.pick_index(name, len(CNAMES))]
        md = CMODES[sym.pick_index(mode, len(CMODES))]
        fail = sym.pick_index(fail_at, 4)        # 0 = no failure, k = k-th layer fails
        log = []

        def mk(kind):
            def ctor(*a, **kw):
                if fail and len([x for x in log if x[0] == 'open']) == fail - 1:
                    raise OSError(5, 'injected')
                return _Layer(log, kind, *a, **kw)
            return ctor

        class _Gzip:
            GzipFile = staticmethod(mk('gz'))
            BadGzipFile = OSError

        class _Bz2:
            BZ2File = staticmethod(mk('bz2'))

        class _Lzma:
            LZMAFile = staticmethod(mk('lzma'))
            FORMAT_ALONE, FORMAT_XZ = 'alone', 'xz'
            LZMAError = OSError

        class _Io:
            TextIOWrapper = staticmethod(mk('text'))
        saved = {k: g_comp.__dict__.get(k, _Io) for k in ('gzip', 'bz2', 'lzma', 'io', 'open')}
        g_comp.gzip, g_comp.bz2, g_comp.lzma, g_comp.io = _Gzip, _Bz2, _Lzma, _Io
        g_comp.open = mk('file')
    try:
        try:
            h = g_comp.open_potentially_compressed_path('/d/' + nm, md, encoding='utf8')
            with h as top:
                topkind = top.kind
            raised = False
        except OSError:
            raised = True
    finally:
        for k, v in saved.items():
            if v is _Io:
                del g_comp.__dict__[k]
            else:
                setattr(g_comp, k, v)
    with sym.untraced():
        opens = [x for x in log if x[0] == 'open']
        suffix = {'Manifest.gz': 'gz', 'Manifest.bz2': 'bz2', 'Manifest.lzma': 'lzma',
                  'Manifest.xz': 'lzma'}.get(nm)
        text = 'b' not in md
        want = ['file'] + ([suffix] if suffix else []) + (['text'] if suffix and text else [])
        # every layer that was opened has been closed again, innermost last
        if any(not x[4].closed for x in opens):
            return False, True
        if raised:
            return fail != 0 and fail <= len(want), True
        if fail != 0 and fail <= len(want):
            return False, True
        if [x[1] for x in opens] != want or topkind != want[-1]:
            return False, True
        f0 = opens[0]
        if suffix:
            # the raw file is binary, the codec sits on it with the format of the suffix,
            # the text layer (caller's encoding) on top only in text mode
            if f0[2][1] not in ('rb', 'wb') or f0[2][1][0] != md[0]:
                return False, True
            c1 = opens[1]
            if nm == 'Manifest.xz' and c1[3].get('format') != 'xz':
                return False, True
            if nm == 'Manifest.lzma' and c1[3].get('format') != 'alone':
                return False, True
            if text and opens[2][3].get('encoding') != 'utf8':
                return False, True
            closes = [x[1] for x in log if x[0] == 'close']
            if closes != list(reversed(want)):
                return False, True
        else:
            if f0[2][1] != md or (text and f0[3].get('encoding') != 'utf8'):
                return False, True
        return True, suffix is not None


def k_open_compressed_pre(name: int, mode: int, fail_at: int):
    return 0 <= name < len(CNAMES) and 0 <= mode < len(CMODES) and 0 <= fail_at <= 3


def conditions(tier):
    cs = []
    full = tier != 'quick'
    cs.append(Cond('open_compressed', k_open_compressed, k_open_compressed_pre, timeout=300,
                   group='compression',
                   descr='open_potentially_compressed_path with recording stand-ins for '
                         'open/GzipFile/BZ2File/LZMAFile/TextIOWrapper: layers chosen by the '
                         'exact suffix only, raw file binary, text layer with the caller\'s '
                         'encoding iff text mode, all layers closed (innermost last) on exit '
                         'and when any constructor fails',
                   bounds='9 names x 4 modes x failure at layer 0-3'))
    lefts = range(len(LEFT)) if full else (0, 1, 2, 4)
    rights = range(len(RIGHT)) if full else (0, 1, 2, 6, 7)
    for l in lefts:
        for r in rights:
            if l in (2, 3, 4) and r in (6, 7):
                # CrossHair 0.0.110 aborts ("Numeric operation on symbolic while not
                # tracing") when re.sub has concrete matches on both sides of the symbolic
                # character; each side is covered on its own
                continue
            cs.append(Cond(
                f'path_roundtrip_{l}{r}', specialise(k_path_roundtrip, left=l, right=r),
                specialise(k_char_pre, left=l, right=r), timeout=600, group='escape',
                twin=(l == 1 and r == 1),
                descr='process_path(encoded_path(p)) == p for p = '
                      f'{LEFT[l]!r} + <any code point> + {RIGHT[r]!r}',
                bounds='one free code point 0..0x10FFFF (incl. surrogates) between fixed '
                       'hex-digit-like / backslash / blank neighbours'))
    for l, r in ((1, 1), (0, 0), (2, 2)):
        cs.append(Cond(
            f'path_token_{l}{r}', specialise(k_path_token, left=l, right=r),
            specialise(k_char_pre, left=l, right=r), timeout=600, group='escape',
            twin=(l == 1), descr='encoded path is one token free of whitespace and control '
            'characters', bounds='one free code point'))
    for t in range(len(TAGS)):
        for ck in range(len(CKS)):
            if TAGS[t] == 'IGNORE' and ck:
                continue
            if not full and ck == 1 and TAGS[t] not in ('DATA', 'AUX'):
                continue        # quick: 0 and 3 checksums for every tag, 1 for DATA/AUX
            shapes = (0,) if (ck or (not full and TAGS[t] not in ('AUX', 'DATA'))) \
                else range(len(PSHAPES))
            for sh in shapes:
                cs.append(Cond(
                    f'entry_roundtrip_{TAGS[t]}_{ck}' + (f'_s{sh}' if sh else ''),
                    specialise(k_entry_roundtrip, tag=t, ck=ck, shape=sh),
                    specialise(k_entry_pre, tag=t, ck=ck, shape=sh), timeout=600,
                    group='entry', twin=(t == 0 and sh == 0),
                    descr=f'{TAGS[t]}.from_list(to_list(e)) == e, fields non-empty and '
                          'free of blanks',
                    bounds=f'path {PSHAPES[sh]!r} with c any code point (free character in '
                           'the middle, at the start, at the end, alone); size in {0,1,2**64,'
                           f'10**30}}; checksums {sorted(CKS[ck])}'))
    cs.append(Cond('timestamp_roundtrip', k_timestamp_roundtrip,
                   lambda i: 0 <= i < len(TS), timeout=60, group='entry', twin=False,
                   descr='TIMESTAMP from_list(to_list) for year 1, 9999, epoch, 2017',
                   bounds='4 instants (strftime/strptime are C code)'))
    for t1 in range(4):
        for ck in ((0, 1, 2) if full else (1,)):
            for sort in (False, True):
                if FTAGS[t1] == 'IGNORE':
                    # CrossHair's models of str.strip() and of "\\s" in re disagree on some
                    # code point when the path is the last field of the line: its
                    # counterexamples do not reproduce (decided at entry level instead)
                    continue
                if not full and sort and t1 != 0:
                    continue
                fx = {'t1': t1, 'ck': ck, 'sort': sort}
                cs.append(Cond(
                    f'file_roundtrip_{FTAGS[t1]}_{ck}{int(sort)}',
                    specialise(k_file_roundtrip, **fx), specialise(k_file_pre, **fx),
                    timeout=900, group='file', twin=(t1 == 0),
                    descr='load(dump(entries)) == entries for 2 entries, one line each, '
                          'fields separated by single spaces',
                    bounds=f'last entry {FTAGS[t1]} with path "a"+<any code point>, '
                           f'{len(FCKS[ck])} checksums; first entry concrete; '
                           f'sort={sort}'))
    for tag in ('DIST', 'DATA', 'AUX'):
        for kind, n in ESC:
            lead = {'x': '', 'u': '00', 'U': '000000'}[kind] if not full else \
                {'x': '', 'u': '', 'U': '0000'}[kind]
            fn, pre = make_entry_fixed_point(tag, kind, n, lead)
            cs.append(Cond(
                f'entry_fixed_point_{tag}_{kind}', fn, pre, timeout=900, group='fixedpoint',
                twin=(tag == 'DATA'),
                descr=f'if {tag}.from_list accepts a name with an escape "\\{kind}..." in the '
                      'middle, to_list of the result is accepted again with an equal entry '
                      '(tag-specific name rules are applied to the decoded name)',
                bounds=f'{n - len(lead)} free characters after {lead!r}'))
    for kind, n in ESC:
        for pi, (a, b) in enumerate(POS):
            lead = ('0000' if not full else '00') if kind == 'U' else ''
            fn, pre = make_fixed_point(kind, n, a, b, lead)
            cs.append(Cond(
                f'fixed_point_{kind}_{pi}', fn, pre, timeout=900 if not full else 2400,
                group='fixedpoint',
                twin=(pi == 1),
                descr=f'if from_list accepts {a!r}+"\\\\{kind}"+<{n} free characters>+{b!r} '
                      'then the re-written path is accepted again and equal',
                bounds=f'{n - len(lead)} free characters after {lead!r} (all hex digit '
                       'strings and all non-hex); int() with base 16 modelled by digit '
                       'arithmetic'))
    return cs


def validate(seed, tier):
    """translator validation of the int(.,16) model against the builtin"""
    import random
    rnd = random.Random(seed)
    n, errs = 0, []
    for _ in range(400):
        k = rnd.choice((2, 4, 8))
        s = ''.join(rnd.choice('0123456789abcdefABCDEF') for _ in range(k))
        if model_int(s, 16) != int(s, 16):
            raise RuntimeError(f'translator validation: model_int({s!r}) != int')
        n += 1
    for val in (-2 ** 31 - 1, -2 ** 31, -1, 0, 65, 0x10FFFF, 0x110000, 2 ** 31 - 1, 2 ** 31,
                0xFFFFFFFF, 2 ** 64):
        def outcome(fn):
            try:
                return fn(val)
            except (ValueError, OverflowError) as e:
                return type(e).__name__
        if outcome(model_chr) != outcome(chr):
            raise RuntimeError(f'translator validation: model_chr({val}) != chr')
        n += 1
    # the real codecs: entries written through every supported compression come back equal
    import os
    import tempfile
    from gemato.compression import open_potentially_compressed_path
    d = tempfile.mkdtemp(prefix='vf-c08-', dir=os.environ.get('TMPDIR', '/tmp'))
    try:
        es = [mk_entry('DATA', 'we ird\\\u00a0\U0001f600', 2 ** 64, CKS[2]),
              mk_entry('IGNORE', '\x7f\t', 0, {}), mk_entry('AUX', 'fix.patch', 1, CKS[1]),
              ManifestEntryTIMESTAMP(TS[1])]
        for suf in ('', '.gz', '.bz2', '.lzma', '.xz'):
            p = os.path.join(d, 'Manifest' + suf)
            m = ManifestFile()
            m.entries = list(es)
            with open_potentially_compressed_path(p, 'w', encoding='utf8') as f:
                m.dump(f)
            m2 = ManifestFile()
            with open_potentially_compressed_path(p, 'r', encoding='utf8') as f:
                m2.load(f, verify_openpgp=False)
            if [e.to_list() for e in m2.entries] != [e.to_list() for e in es]:
                errs.append(f'round trip through {suf or "plain"} differs')
            n += 1
    finally:
        import shutil
        shutil.rmtree(d, ignore_errors=True)
    return n, [{'sample': 'model_int("fF0a",16)', 'value': model_int('fF0a', 16)},
               {'codecs': ['plain', 'gz', 'bz2', 'lzma', 'xz']}], errs


# validate() compares the real implementation with the property itself
VALIDATION_CHECKS_PROPERTY = True

ASSUMPTIONS = ['Python\'s own str(int)/int(str) and strftime/strptime round-trip (C code)',
               'int(s, 16) replaced inside gemato.manifest by an exact digit-arithmetic model '
               'for the fixed-point conditions (validated against the builtin every run)']
OUTSIDE = ['codecs\' own round trip (zlib/bz2/lzma are C)', 'paths with more than one free '
           'code point (the escaper is a per-character substitution; neighbours are covered '
           'by the listed contexts)', 'lone surrogates through the UTF-8 file layer']
STUBS = ['gemato.manifest.int -> model_int, gemato.manifest.chr -> model_chr (error contract '
         'of the builtin spelled out; fixed-point conditions only)']
