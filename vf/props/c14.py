"""C14 - a signed tree stays signed; sub-Manifests are never signed."""
import io
import posixpath

from vf import sym, tree
from vf.engine import Cond, specialise
from vf.modelfs import ModelFS, ROOT, mk, digest_for
from vf.scen import make_cond, partitions
from vf.props.c05 import GpgWorld, Swap, _OsProxy, _Env

import gemato.openpgp as g_pgp
from gemato.exceptions import OpenPGPSigningFailure
from gemato.manifest import ManifestFile, new_manifest_entry
from gemato.recursiveloader import ManifestRecursiveLoader

PROPERTY = 'C14'
SIGN = (None, True, False)
KEYID = (None, '0xDEADBEEF')


class Env:
    def __init__(self, fail):
        self.calls, self.fail = [], fail

    def clear_sign_file(self, f, outf, keyid=None):
        text = f.read()
        self.calls.append((text, keyid))
        if self.fail:
            raise OpenPGPSigningFailure('no secret key')
        outf.write('-----BEGIN PGP SIGNED MESSAGE-----\nHash: SHA512\n\n' + text
                   + '-----BEGIN PGP SIGNATURE-----\nsig\n-----END PGP SIGNATURE-----\n')


ENTRIES = (('DATA', 'a b', 1, {'MD5': 'x'}), ('IGNORE', 'ig\\x'),
           ('MANIFEST', 'sub/Manifest', 5, {'SHA1': 'y'}), ('DATA', '-dash', 0, {}))


def k_dump_sign(sign: int, loaded_signed: int, keyid: int, fail: bool, sort: bool,
                nent: int):
    with sym.untraced():
        s_opt = SIGN[sym.pick_index(sign, 3)]
        ls = (None, False, True)[sym.pick_index(loaded_signed, 3)]
        kid = KEYID[sym.pick_index(keyid, 2)]
        fail, sort = sym.b(fail), sym.b(sort)
        n = sym.pick_index(nent, len(ENTRIES) + 1)
        m = ManifestFile()
        m.entries = [new_manifest_entry(*e) for e in ENTRIES[:n]]
        m.openpgp_signed = ls
        env = Env(fail)
        out = io.StringIO()
        plain = io.StringIO()
    try:
        m.dump(out, sign_openpgp=s_opt, openpgp_keyid=kid, openpgp_env=env, sort=sort)
        raised = False
    except OpenPGPSigningFailure:
        raised = True
    # a second dump of the same object (a loader may save more than once; a watermark
    # rename saves the top-level Manifest twice in one run) takes the same decision
    out2 = io.StringIO()
    env2 = Env(False)
    m.dump(out2, sign_openpgp=s_opt, openpgp_keyid=kid, openpgp_env=env2, sort=sort)
    with sym.untraced():
        want2 = bool(s_opt) if s_opt is not None else bool(ls)
        if bool(env2.calls) != want2 or out2.getvalue().startswith('-----BEGIN') != want2:
            return False, True
        ref = ManifestFile()
        ref.entries = list(m.entries)
        ref.dump(plain, sign_openpgp=False)
        want_sign = bool(s_opt) if s_opt is not None else bool(ls)
        if not want_sign:
            return (not raised and env.calls == []
                    and out.getvalue() == plain.getvalue()), False
        # signing: the backend got exactly the plain dump of the (sorted) entries and the
        # requested key; a failure propagates and leaves nothing that looks like a Manifest
        if env.calls != [(plain.getvalue(), kid)]:
            return False, True
        if fail:
            return raised and out.getvalue() == '', True
        text = out.getvalue()
        return (not raised and text.startswith('-----BEGIN PGP SIGNED MESSAGE-----\n')
                and plain.getvalue() in text), True


def k_dump_sign_pre(sign: int, loaded_signed: int, keyid: int, fail: bool, sort: bool,
                    nent: int):
    return (0 <= sign <= 2 and 0 <= loaded_signed <= 2 and 0 <= keyid <= 1
            and 0 <= nent <= len(ENTRIES))


# gpg --clearsign wrapper: exit status and arguments
def k_clearsign(exitst: int, keyid: int):
    w = GpgWorld(out=b'SIGNED OUTPUT', exitst=exitst)
    env = g_pgp.SystemGPGEnvironment()
    outf = io.StringIO()
    kid = KEYID[sym.pick_index(keyid, 2)]
    with Swap(g_pgp, subprocess=w, os=_OsProxy(_Env(False, '', False, ''))):
        try:
            env.clear_sign_file(io.StringIO('DATA a 1\n'), outf, keyid=kid)
            raised = False
        except OpenPGPSigningFailure:
            raised = True
    argv = w.calls[0]['argv']
    args_ok = ('--clearsign' in argv and w.stdin == [b'DATA a 1\n']
               and ((kid in argv) if kid else all(a.startswith('-') or a == argv[0]
                                                  for a in argv)))
    if exitst != 0:
        return raised and outf.getvalue() == '' and args_ok, True
    return (not raised) and outf.getvalue() == 'SIGNED OUTPUT' and args_ok, False


def k_clearsign_pre(exitst: int, keyid: int):
    return -2 <= exitst <= 3 and 0 <= keyid <= 1


# M: save_manifest asks for a signature on the top-level Manifest only
class Ctx:
    pass


def s_sign(v):
    c = Ctx()
    fs = c.fs = ModelFS(written_sizes=[200, 300, 400, 500])
    fs.render = True        # all values are concrete here: the real dump() runs in full
    c.top_name = ('Manifest', 'Manifest.gz')[v.choice('top_name', 2)]
    fs.add_file('a', size=1, digest='A')
    fs.add_file('sub/c', size=2, digest='C')
    fs.add_file('sub/deep/d', size=2, digest='D')
    fs.add_manifest('sub/deep/Manifest', [mk('DATA', 'd', 9, MD5=digest_for('MD5', 'D'))],
                    size=3, digest='R', signed=v.bool('deep_signed'))
    fs.add_manifest('sub/Manifest', [
        mk('DATA', 'c', 9, MD5=digest_for('MD5', 'C')),
        mk('MANIFEST', 'deep/Manifest', 3, MD5=digest_for('MD5', 'R'))],
        size=4, digest='S', signed=v.bool('sub_signed'))
    # optionally the entry for "a" lives in a second Manifest in the top directory (as the
    # Gentoo tree's Manifest.files.gz): a sub-Manifest although it sits next to the top one
    second = v.bool('second_top')
    first = mk('DATA', 'a', 9, MD5=digest_for('MD5', 'A'))
    if second:
        fs.add_manifest('Manifest.files.gz', [first], size=5, digest='T')
        first = mk('MANIFEST', 'Manifest.files.gz', 5, MD5=digest_for('MD5', 'T'))
    fs.add_manifest(c.top_name, [
        first,
        mk('MANIFEST', 'sub/Manifest', 4, MD5=digest_for('MD5', 'S'))],
        signed=v.bool('top_signed'))
    c.sign = SIGN[v.choice('sign', 3)]
    c.keyid = KEYID[v.choice('keyid', 2)]
    c.watermark = (None, 0, 250, 10000)[v.choice('watermark', 4)]
    c.verify = v.bool('verify_openpgp')
    return c


def run_sign(c):
    fs = c.fs
    with fs.installed():
        m = ManifestRecursiveLoader(posixpath.join(ROOT, c.top_name),
                                    verify_openpgp=c.verify, hashes=['MD5'],
                                    sign_openpgp=c.sign, openpgp_keyid=c.keyid,
                                    openpgp_env='model-env')
        c.loaded_signed = m.openpgp_signed
        m.update_entries_for_directory('')
        m.save_manifests(force=True, compress_watermark=c.watermark, compress_format='bz2')
        c.final_top = m.top_level_manifest_filename
    return 'saved'


def judge_sign(c, out):
    fs = c.fs
    tops = ('Manifest', 'Manifest.gz', 'Manifest.bz2')
    seen_top = False
    for path, sign_arg, keyid in fs.dump_args:
        rel = posixpath.relpath(path, ROOT)
        if rel in tops:
            seen_top = True
            # the loader hands its own sign option through (None = keep the loaded state)
            if sign_arg is not c.sign or keyid != c.keyid:
                return False, True
        else:
            if sign_arg is not False:
                return False, True
    # resulting state on the model: top-level signed iff asked for / loaded signed
    want = bool(c.sign) if c.sign is not None else bool(c.loaded_signed)
    top = fs.node(c.final_top)
    if top is None or bool(top.signed) != want:
        return False, True
    for rel in ('sub/Manifest', 'sub/Manifest.bz2', 'sub/deep/Manifest',
                'sub/deep/Manifest.bz2', 'Manifest.files.gz', 'Manifest.files'):
        n = fs.node(rel)
        if n is not None and n.signed:
            return False, True
    return seen_top and c.loaded_signed == (fs_top_signed(c) and c.verify), True


def fs_top_signed(c):
    return c.top_was_signed


def conditions(tier):
    cs = []
    for sg in range(3):
        cs.append(Cond(
            f'dump_sign_{sg}', specialise(k_dump_sign, sign=sg),
            specialise(k_dump_sign_pre, sign=sg), timeout=300, group='dump', twin=(sg != 2),
            descr=f'real ManifestFile.dump with sign_openpgp={SIGN[sg]} x loaded state '
                  '(None/False/True) x key id x backend success/failure x sort x 0-4 entries '
                  '(incl. paths needing escapes): signs iff asked or (unset and loaded signed), '
                  'the backend receives exactly the plain dump and the key id, a signing '
                  'failure propagates and nothing is written',
            bounds='symbolic choices; entries concrete'))
    cs.append(Cond('clearsign', k_clearsign, k_clearsign_pre, timeout=120, group='gpg',
                   descr='clear_sign_file: gpg --clearsign [--local-user id], non-zero exit '
                         'raises OpenPGPSigningFailure and writes nothing',
                   bounds='exit status -2..3'))
    for fx in partitions([('sign', range(3)), ('top_name', range(2)),
                          ('watermark', range(4))]):
        nm = f'save_sign_s{fx["sign"]}_t{fx["top_name"]}_w{fx["watermark"]}'
        cs.append(make_cond(
            nm, s_sign_wrap, run_sign, judge_sign, fx, timeout=300, group='M-save',
            real=False, descr='update + forced save of a three-level tree: which dump calls '
            'ask for a signature, and which Manifest nodes end up signed',
            bounds='sign option unset/on/off; top-level originally signed or not, loaded '
                   'with or without verification; sub-Manifests originally (wrongly) signed '
                   'or not; optional second Manifest (Manifest.files.gz) in the top directory; '
                   'top-level named Manifest or Manifest.gz; watermark none/0/250/'
                   '10000 (renames); key id given or not'))
    return cs


def s_sign_wrap(v):
    c = s_sign(v)
    c.top_was_signed = bool(c.fs.node(c.top_name).signed)
    return c


# validate() compares the real implementation with the property itself
VALIDATION_CHECKS_PROPERTY = True

ASSUMPTIONS = ['gpg --clearsign produces a valid cleartext signature over its input when it '
               'exits 0 (binary)', 'in the model runs a Manifest node carries a signed flag; '
               'the text-level behaviour of dump is decided by dump_sign_* on the real code']
OUTSIDE = ['validity of real signatures', 'gpg key selection', 'unusable secret keys beyond '
           'the exit status']
STUBS = ['openpgp_env -> recorder', 'gemato.openpgp.subprocess -> transcript world',
         'ModelFS dump wrapper recording the sign argument of every dump call']


def validate(seed, tier):
    """Real gpg (where installed): dump(sign_openpgp=True) with the real environment yields
    a cleartext-signed message that the real load() verifies and whose entries equal the
    dumped ones - also for paths needing escapes and for an explicit key id; an unusable key
    id raises OpenPGPSigningFailure and leaves the output empty."""
    import os
    import shutil
    import subprocess
    import tempfile
    if shutil.which('gpg') is None:
        return 0, [{'note': 'no gpg binary'}], []
    agree, details, errs = 0, [], []
    home = tempfile.mkdtemp(prefix='vf-gpg-', dir=os.environ.get('TMPDIR', '/tmp'))
    os.chmod(home, 0o700)
    old = os.environ.get('GNUPGHOME')
    os.environ['GNUPGHOME'] = home
    try:
        subprocess.run(['gpg', '--batch', '--pinentry-mode', 'loopback', '--passphrase', '',
                        '--quick-generate-key', 'vf test <vf@example.org>', 'ed25519',
                        'sign', 'never'], capture_output=True)
        env = g_pgp.SystemGPGEnvironment()
        for n in range(len(ENTRIES) + 1):
            for keyid in (None, 'vf@example.org'):
                m = ManifestFile()
                m.entries = [new_manifest_entry(*e) for e in ENTRIES[:n]]
                out = io.StringIO()
                m.dump(out, sign_openpgp=True, openpgp_env=env, openpgp_keyid=keyid)
                m2 = ManifestFile()
                m2.load(io.StringIO(out.getvalue()), verify_openpgp=True, openpgp_env=env)
                if m2.openpgp_signed and [e.to_list() for e in m2.entries] == \
                        [e.to_list() for e in m.entries]:
                    agree += 1
                else:
                    errs.append(f'real sign/verify round trip failed for {n} entries')
        m = ManifestFile()
        m.entries = [new_manifest_entry(*ENTRIES[0])]
        out = io.StringIO()
        try:
            m.dump(out, sign_openpgp=True, openpgp_env=env, openpgp_keyid='nobody@nowhere')
            errs.append('signing with an unusable key id did not fail')
        except OpenPGPSigningFailure:
            if out.getvalue() == '':
                agree += 1
            else:
                errs.append('signing failure left output behind')
        details.append({'round_trips': agree - 1, 'unusable_key': 'OpenPGPSigningFailure'})
    finally:
        subprocess.run(['gpgconf', '--kill', 'all'], capture_output=True)
        if old is None:
            os.environ.pop('GNUPGHOME', None)
        else:
            os.environ['GNUPGHOME'] = old
        shutil.rmtree(home, ignore_errors=True)
    return agree, details, errs
