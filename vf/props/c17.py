"""C17 - reported digests and sizes are those of the whole file content."""
import contextlib

from vf import venv_verify as ve
from vf.engine import Cond, specialise

import gemato.hash as gh
import gemato.verify as gv
from gemato.exceptions import UnsupportedHash
from gemato.manifest import MANIFEST_HASH_MAPPING

PROPERTY = 'C17'


class Block:
    """an abstract run of file content: bytes [off, off+length); never real bytes"""
    __slots__ = ('off', 'length')

    def __init__(self, off, length):
        self.off, self.length = off, length

    def __eq__(self, other):
        if isinstance(other, (bytes, bytearray)):
            return len(other) == 0 and self.length == 0
        return NotImplemented

    def __ne__(self, other):
        r = self.__eq__(other)
        return r if r is NotImplemented else not r

    __hash__ = None


class AbstractFile:
    def __init__(self, length, sched):
        self.length, self.pos, self.sched = length, 0, list(sched)
        self.calls = []

    def read(self, n=-1):
        rest = self.length - self.pos
        if n is None or n < 0:
            k = rest
        else:
            k = n if n < rest else rest
        self.calls.append(('read', n))
        if k == 0:
            return b''
        b = Block(self.pos, k)
        self.pos = self.pos + k
        return b

    def read1(self, n=-1):
        rest = self.length - self.pos
        self.calls.append(('read1', n))
        if rest == 0:
            return b''
        cap = n if (n is not None and 0 <= n < rest) else rest
        k = cap
        if self.sched:
            want = self.sched.pop(0)        # a short read: any 1..cap bytes
            if want < cap:
                k = want
        b = Block(self.pos, k)
        self.pos = self.pos + k
        return b


class Recorder:
    """hashlib-like object that checks it is fed the file content in order, exactly once"""

    def __init__(self, name):
        self.name, self.pos, self.ok, self.updates = name, 0, True, 0

    def update(self, block):
        self.updates += 1
        if isinstance(block, Block):
            if block.off != self.pos:
                self.ok = False
            self.pos = self.pos + block.length
        elif len(block) != 0:
            self.ok = False

    def hexdigest(self):
        return ('digest', self.name, self)


class _Hashlib:
    def __init__(self):
        import hashlib
        self.algorithms_available = hashlib.algorithms_available
        self.made = []

    def new(self, name):
        r = Recorder(name)
        self.made.append(r)
        return r


def _len(x):
    if isinstance(x, Block):
        return x.length
    return len(x)


@contextlib.contextmanager
def hash_env():
    for k in ('hashlib',):
        if k not in gh.__dict__:
            raise RuntimeError(f'seam gemato.hash.{k} is gone')
    saved = (gh.hashlib, gh.__dict__.get('len', hash_env))
    hl = _Hashlib()
    gh.hashlib = hl
    gh.len = _len
    try:
        yield hl
    finally:
        gh.hashlib = saved[0]
        if saved[1] is hash_env:
            del gh.len
        else:
            gh.len = saved[1]


NAMES = ('md5', 'sha1', 'blake2b')


def run_hash(length, hint, sched, nnames):
    names = list(NAMES[:nnames]) + ['__size__']
    f = AbstractFile(length, sched)
    with hash_env() as hl:
        res = gh.hash_file(f, names, _apparent_size=hint)
    ok = res['__size__'] == length and len(hl.made) == nnames
    for r in hl.made:
        ok = ok and r.ok and r.pos == length
        ok = ok and res[r.name] == ('digest', r.name, r)
    return ok, f


# (i) path selection and slurp: any length, any hint
def k_slurp(length: int, hint: int, nnames: int):
    ok, f = run_hash(length, hint, [], nnames)
    slurp = hint != 0 and hint < gh.MAX_SLURP_SIZE
    # (which read strategy is used is not part of the property: only the result is judged)
    return ok, slurp and hint != length


def k_slurp_pre(length: int, hint: int, nnames: int):
    # the chunked path is bounded separately: here lengths that need more than 4 chunks
    # are only followed through the slurp path
    small = hint != 0 and hint < gh.MAX_SLURP_SIZE
    return (length >= 0 and hint >= 0 and 0 <= nnames <= 3
            and (small or length <= 4 * gh.HASH_BUFFER_SIZE))


# (ii) chunk loop with short reads
def k_chunks(length: int, hint: int, k1: int, k2: int, nnames: int):
    ok, f = run_hash(length, hint, [k1, k2], nnames)
    return ok, length > gh.HASH_BUFFER_SIZE


def k_chunks_pre(length: int, hint: int, k1: int, k2: int, nnames: int):
    return (0 <= length <= 3 * gh.HASH_BUFFER_SIZE + 2 and k1 >= 1 and k2 >= 1
            and (hint == 0 or hint >= gh.MAX_SLURP_SIZE) and 0 <= nnames <= 3)


# get_hash_by_name
HNAMES = ('md5', 'sha1', 'sha512', 'blake2b', 'blake2s', 'sha3_256', 'sha3_512', 'ripemd160',
          'whirlpool', '__size__', 'MD5', 'nosuch', '', 'size', 'sha-1')


def k_by_name(i: int):
    import hashlib
    name = HNAMES[i]
    with hash_env() as hl:
        try:
            h = gh.get_hash_by_name(name)
            got = 'ok'
        except UnsupportedHash as e:
            got = 'unsupported'
            okname = e.hash_name == name
    if name == '__size__':
        return got == 'ok' and isinstance(h, gh.SizeHash) and h.hexdigest() == 0, False
    if name in hashlib.algorithms_available:
        return got == 'ok' and isinstance(h, Recorder) and h.name == name, False
    return got == 'unsupported' and okname, True


# get_file_metadata: every Manifest name gets the value computed under *its* algorithm
MN = ('MD5', 'SHA1', 'SHA256', 'SHA512', 'RMD160', 'WHIRLPOOL', 'BLAKE2B', 'BLAKE2S',
      'SHA3_256', 'SHA3_512')


def k_metadata(b0: bool, b1: bool, b2: bool, b3: bool, b4: bool, b5: bool, b6: bool,
               b7: bool, b8: bool, b9: bool, size: int, st_size: int = -1):
    want = [n for n, b in zip(MN, (b0, b1, b2, b3, b4, b5, b6, b7, b8, b9)) if b]
    digests = {hl: 'value-of-' + hl for hl in MANIFEST_HASH_MAPPING.values()}
    hint = size if st_size == -1 else st_size       # st_size is only a hint (sysfs, races)
    f = ve.OneFile('regular', st_size=hint, true_size=size, digests=digests)
    with ve.Installed(f):
        g = gv.get_file_metadata('/r/f', list(reversed(want)))
        vals = list(g)
    res = vals[-1]
    ok = (vals[0] is True and res['__size__'] == size and sorted(res) == sorted(
        want + ['__size__']))
    for n in want:
        ok = ok and res[n] == 'value-of-' + GLEP[n]
    # the content was read (the size is that of the content, not of the stat record)
    ok = ok and f.hashed
    return ok, len(want) >= 2


# GLEP 59 / GLEP 74 hash names -> algorithms
GLEP = {'MD5': 'md5', 'SHA1': 'sha1', 'SHA256': 'sha256', 'SHA512': 'sha512',
        'RMD160': 'ripemd160', 'WHIRLPOOL': 'whirlpool', 'BLAKE2B': 'blake2b',
        'BLAKE2S': 'blake2s', 'SHA3_256': 'sha3_256', 'SHA3_512': 'sha3_512'}


def conditions(tier):
    cs = []
    for n in range(4):
        cs.append(Cond(f'slurp_n{n}', specialise(k_slurp, nnames=n),
                       specialise(k_slurp_pre, nnames=n), timeout=300, group='hash_file',
                       twin=(n == 1),
                       descr='real hash_file on an abstract file (blocks are (offset,length) '
                             'tokens) with recording hash objects: whichever path the size '
                             'hint selects, every hash object receives the whole content in '
                             'order exactly once and __size__ is the true length - also when '
                             'the hint is wrong (0, smaller, larger)',
                       bounds='length and hint any int >= 0 on the slurp path; length <= 4 '
                              'chunks on the chunked path; 0-3 hash names + __size__'))
    for n in ((1, 3) if tier == 'quick' else range(4)):
        cs.append(Cond(f'chunks_n{n}', specialise(k_chunks, nnames=n),
                       specialise(k_chunks_pre, nnames=n), timeout=900, group='hash_file',
                       descr='chunked path with two short reads of symbolic size followed '
                             'by maximal chunks',
                       bounds='length <= 3*64 KiB + 2 (covers 64 KiB +-2 and several chunks); '
                              'short reads k1,k2 any int >= 1'))
    for i in range(len(HNAMES)):
        cs.append(Cond(f'by_name_{i}', specialise(k_by_name, i=i), None, timeout=60,
                       group='names', twin=False,
                       descr=f'get_hash_by_name({HNAMES[i]!r}): size pseudo-hash, '
                             'hashlib.new(name) iff available, else UnsupportedHash(name)',
                       bounds='one concrete name per condition'))
    def wrong_hint(b0: bool, b1: bool, size: int, st_size: int):
        return k_metadata(b0, b1, False, False, False, False, False, False, False, False,
                          size, st_size)
    cs.append(Cond('metadata_wrong_hint', wrong_hint,
                   lambda b0, b1, size, st_size: size >= 0 and st_size >= 0, timeout=300,
                   group='metadata',
                   descr='get_file_metadata when st_size differs from the real content '
                         'length (0, smaller, larger), for no, one or two requested hashes: '
                         '__size__ is the number of bytes read',
                   bounds='size and st_size any int >= 0; subsets of {MD5, SHA1}'))
    cs.append(Cond('metadata', k_metadata, lambda **kw: kw['size'] >= 0, timeout=600,
                   group='metadata',
                   descr='get_file_metadata for any subset of the ten Manifest hash names '
                         '(given in reverse order): each Manifest name maps to the value '
                         'computed under its own algorithm (GLEP 59/74 table)',
                   bounds='2**10 subsets, any size'))
    return cs


def validate(seed, tier):
    """constant comparison of the name table with GLEP 59/74 + real hashlib spot checks"""
    import hashlib
    import io
    errs = []
    if dict(MANIFEST_HASH_MAPPING) != GLEP:
        errs.append(f'MANIFEST_HASH_MAPPING differs from the GLEP table: '
                    f'{dict(MANIFEST_HASH_MAPPING)}')
    n = 0
    for length in (0, 1, 299, 65535, 65536, 65537, 1048575, 1048576, 1048577):
        data = bytes((i * 7 + seed) % 251 for i in range(length))
        for hint in (0, length, length // 2, length * 2 + 5):
            r = gh.hash_file(io.BytesIO(data), ['md5', 'sha512', '__size__'],
                             _apparent_size=hint)
            if (r['md5'] != hashlib.md5(data).hexdigest() or r['__size__'] != length
                    or r['sha512'] != hashlib.sha512(data).hexdigest()):
                errs.append(f'hash_file wrong for length {length} hint {hint}')
            n += 1
    return n, [{'lengths': 'around 64 KiB and 1 MiB', 'hints': '0/true/half/double'}], errs


# validate() compares the real implementation with the property itself
VALIDATION_CHECKS_PROPERTY = True

ASSUMPTIONS = ['hashlib computes the standard digests (C code); a hash object that was fed '
               'the whole content in order returns the digest of the content',
               'read() returns the rest of the file; read1(n) returns between 1 and n bytes '
               'or b"" at end of file (io contract)']
OUTSIDE = ['the algorithms themselves', 'more than two short reads per file',
           'chunked path beyond 3 chunks (the loop body is the same for every chunk)']
STUBS = ['gemato.hash.hashlib -> recorder factory', 'gemato.hash.len -> length of abstract '
         'blocks', 'gemato.verify environment of C01/K1 with digests tagged by algorithm']
