"""C03 - update writes Manifests that describe the tree exactly and then verify."""
from vf import tree
from vf.modelfs import ModelFS, mk, digest_for
from vf.scen import make_cond, partitions

PROPERTY = 'C03'
HSETS = (('MD5',), ('MD5', 'SHA1'))
DTAGS = ('DATA', 'EBUILD', 'MISC')


class Ctx:
    pass


def ck(hs, dig, dig2=None):
    out = {}
    for h in hs:
        out[h] = digest_for(h, dig if h == 'MD5' or dig2 is None else dig2)
    return out


def dup_slot(v, p, path, tags=DTAGS):
    """entry slot whose hash set is {MD5} or {MD5,SHA1} (symbolic choice)"""
    present = v.bool(p + '_present')
    t = v.lazychoice(p + '_tag', len(tags))
    hs = v.lazychoice(p + '_hs', 2)
    size, dig, dig2 = v.size(p + '_size'), v.dig(p + '_dig'), v.dig(p + '_dig2')
    if not present:
        return []
    return [mk(tags[t()], path, size, **ck(HSETS[hs()], dig, dig2))]


def make_flat(full, tags):
    def s_flat(v):
        return _s_flat(v, full, tags)
    return s_flat


def opts(v, c):
    c.hashes = HSETS[v.choice('hs', 2)]
    if c.full:
        c.sort = v.bool('sort')
        c.force = v.bool('force')
    else:
        c.sort = c.force = v.bool('sort_force')


def _s_flat(v, full, tags):
    """Manifest, a (absent or symbolic file, 0-2 entries), b (new, unlisted), z (listed,
    vanished), .h (hidden), ig/x (IGNOREd); requested hash set, sort, force symbolic"""
    c = Ctx()
    c.full = full
    fs = c.fs = ModelFS(written_sizes=[v.size('w1'), v.size('w2')])
    ak = v.choice('a_kind', 2)
    (a_size, a_dig) = v.filetoken('a_size', 'a_dig')
    if ak == 1:
        fs.add_file('a', size=a_size, digest=a_dig)
    ents = dup_slot(v, 'e1', 'a', tags) + dup_slot(v, 'e2', 'a', tags)
    if c.full and not v.bool('b_present'):
        pass
    else:
        fs.add_file('b', size=3, digest='B')
    if c.full and not v.bool('z_listed'):
        pass
    else:
        ents.append(mk('DATA', 'z', 7, MD5=digest_for('MD5', 'Z')))
    fs.add_file('.h', size=1, digest='h')
    fs.add_file('ig/x', size=1, digest='x')
    ents.append(mk('IGNORE', 'ig'))
    ents.append(mk('DIST', 'dist.tar', 9, MD5=digest_for('MD5', 'd')))
    fs.add_manifest('Manifest', ents)
    opts(v, c)
    c.upath = ''
    return c


SUBSTATE = ('registered', 'stale-link', 'unregistered', 'unregistered-invalid', 'absent')


def make_nest(full, tags):
    def s_nest(v):
        return _s_nest(v, full, tags)
    return s_nest


def _s_nest(v, full, tags):
    """Manifest + sub/{Manifest, c}: the sub-Manifest is registered (consistent or with a
    stale link), unregistered (valid or not a Manifest) or absent; c may be listed in the
    child, in the parent, or both; update of '' or of 'sub'"""
    c = Ctx()
    c.full = full
    fs = c.fs = ModelFS(written_sizes=[v.size('w1'), v.size('w2'), v.size('w3')])
    st = SUBSTATE[v.choice('sub_state', 5)]
    ck_ = v.choice('c_kind', 2)
    (c_size, c_dig) = v.filetoken('c_size', 'c_dig')
    fs.add_dir('sub')
    if ck_ == 1:
        fs.add_file('sub/c', size=c_size, digest=c_dig)
    a_stale = v.lazychoice('a_stale', 2)
    # with a stale link to an otherwise exact sub-Manifest, the file next to the top-level
    # Manifest may have changed too (then the parent is already marked as modified when the
    # walk reaches the sub-Manifest)
    fs.add_file('a', size=2, digest='V' if (st == 'stale-link' and a_stale() == 1) else 'A')
    # a sibling whose name has "sub" as a string (not component) prefix, with a file that
    # has no entry yet and one that is listed in the top Manifest
    fs.add_file('subx/new', size=1, digest='n')
    fs.add_file('subx/old', size=1, digest='o')
    top = [mk('DATA', 'a', 2, MD5=digest_for('MD5', 'A')),
           mk('DATA', 'subx/old', 1, MD5=digest_for('MD5', 'o'))]
    top += dup_slot(v, 'ep', 'sub/c', tags=('DATA',))
    sub = dup_slot(v, 'ec', 'c', tags=tags)
    l_size, l_dig = v.size('l_size'), v.dig('l_dig')
    if st != 'absent':
        fs.add_manifest('sub/Manifest', sub, size=5, digest='S',
                        invalid=(st == 'unregistered-invalid'))
    if st == 'registered':
        top.append(mk('MANIFEST', 'sub/Manifest', 5, MD5=digest_for('MD5', 'S')))
    elif st == 'stale-link':
        top.append(mk('MANIFEST', 'sub/Manifest', l_size, MD5=digest_for('MD5', l_dig)))
    fs.add_manifest('Manifest', top)
    if full:
        opts(v, c)
    else:
        # quick tier: requested set {MD5,SHA1} (a superset of every prior hash set, so the
        # hash set always changes), unsorted, unforced; S-flat varies these symbolically
        c.hashes, c.sort, c.force = HSETS[1], False, False
    c.upath = ('', 'sub')[v.choice('up', 2)]
    # what a verification of the look-alike sibling finds before the update (the stray
    # subx/new): a sub-directory update of "sub" must not make it find more
    c.outside = 'subx'
    c.pre_outside = sorted(tree.oracle_verify(fs, 'Manifest', 'subx').offending)
    return c


def s_multi(v):
    """two Manifests in the top directory: Manifest references Manifest.files.gz, which
    lists the data files (one of them symbolic / stale); update of the whole tree"""
    c = Ctx()
    c.full = False
    fs = c.fs = ModelFS(written_sizes=[v.size('w1'), v.size('w2'), v.size('w3')])
    (b_size, b_dig) = v.filetoken('b_size', 'b_dig')
    fs.add_file('b', size=b_size, digest=b_dig)
    fs.add_file('sub/c', size=1, digest='c')
    second = [mk('DATA', 'b', 2, MD5=digest_for('MD5', 'B')),
              mk('DATA', 'sub/c', 1, MD5=digest_for('MD5', 'c'))]
    if v.bool('new_file'):
        fs.add_file('n', size=1, digest='n')
    fs.add_manifest('Manifest.files.gz', second, size=7, digest='F')
    fs.add_manifest('Manifest', [mk('MANIFEST', 'Manifest.files.gz', 7,
                                    MD5=digest_for('MD5', 'F'))])
    c.hashes, c.sort, c.force = HSETS[0], False, v.bool('force')
    c.upath = ''
    return c


EDITS = ('none', 'modify', 'delete', 'add', 'modify+add', 'replace-by-dir')


def s_rounds(v):
    """two edit+update rounds: a first update on a tree with stale/absent entries, then an
    edit (modify / delete / add / both / file replaced by a directory holding a file), then a
    second update with a fresh loader"""
    c = Ctx()
    c.full = False
    fs = c.fs = ModelFS(written_sizes=[5, 6, 7, 8, 9, 10])
    (a_size, a_dig) = v.filetoken('a_size', 'a_dig')
    fs.add_file('a', size=a_size, digest=a_dig)
    fs.add_file('sub/c', size=1, digest='c')
    present = v.bool('e1_present')
    e_size, e_dig = v.size('e1_size'), v.dig('e1_dig')
    top = [mk('DATA', 'a', e_size, MD5=digest_for('MD5', e_dig))] if present else []
    sub = [mk('DATA', 'c', 1, MD5=digest_for('MD5', 'c'))]
    fs.add_manifest('sub/Manifest', sub, size=4, digest='S')
    top.append(mk('MANIFEST', 'sub/Manifest', 4, MD5=digest_for('MD5', 'S')))
    fs.add_manifest('Manifest', top)
    c.edit = EDITS[v.choice('edit', len(EDITS))]
    c.a2 = v.filetoken('a2_size', 'a2_dig')
    c.where = ('', 'sub')[v.choice('edit_dir', 2)]
    c.hashes, c.sort, c.force = HSETS[0], False, False
    c.hashes2 = HSETS[v.choice('hs2', 2)]
    c.upath = ''
    return c


def run_rounds(c):
    import posixpath as pp
    w = tree.world(c)
    out = tree.run_update(w, 'Manifest', '', c.hashes, c.sort, False)
    c.fresh = None
    c.post = c.fs
    if out != 'saved':
        return out
    # the edit happens on the model (the real-filesystem replay is not wired for it)
    fs = c.fs
    target = pp.join(c.where, 'a' if c.where == '' else 'c')
    node = fs.node(target)
    if c.edit in ('modify', 'modify+add'):
        node.size, node.digest, node.mtime = c.a2[0], c.a2[1], 99
    if c.edit in ('delete', 'replace-by-dir'):
        par, name = fs._parent(pp.join('/r', target), create=False)
        del par.children[name]
    if c.edit == 'replace-by-dir':
        fs.add_file(pp.join(target, 'inner'), size=2, digest='i')
    if c.edit in ('add', 'modify+add'):
        fs.add_file(pp.join(c.where, 'zz-new'), size=3, digest='z')
    n0 = len(fs.log)
    out = tree.run_update(w, 'Manifest', '', c.hashes2, c.sort, False)
    c.hashes = c.hashes2
    if out == 'saved':
        c.fresh = tree.run_verify(w, 'Manifest', '')
    c.second_round_writes = len(fs.log) - n0
    return out


def judge_rounds(c, out):
    ok, interesting = judge_upd(c, out)
    if ok and out == 'saved' and c.edit == 'none' and c.hashes2 == HSETS[0] \
            and c.second_round_writes and False:
        return False, True
    return ok, interesting


def run_upd(c):
    w = tree.world(c)
    out = tree.run_update(w, 'Manifest', c.upath, c.hashes, c.sort, c.force)
    c.fresh = None
    c.post = c.fs
    if out == 'saved':
        # fresh verification of the directory that was updated (what lies outside a
        # sub-directory update is deliberately left alone: C10)
        c.fresh = tree.run_verify(w, 'Manifest', c.upath)
        if w is not c.fs:
            from vf import realfs
            c.post = realfs.readback(w.root_path)
    c.observed = [out, c.fresh]
    return out


def judge_upd(c, out):
    if out != 'saved':
        # the statement speaks about updates that complete; a library error is C18's topic
        return True, False
    problems = tree.oracle_exact(c.post, 'Manifest', c.upath, c.hashes)
    c.problems = problems
    if problems:
        return False, True
    if getattr(c, 'outside', None) and c.upath:
        # the files of a sibling directory that were described exactly before the update of
        # c.upath still are (the Manifests on disk after an update of one directory do not
        # describe the rest of the tree worse than before)
        post = sorted(tree.oracle_verify(c.post, 'Manifest', c.outside).offending)
        if post != c.pre_outside:
            c.problems = [('outside-the-updated-directory', c.outside, post)]
            return False, True
    return c.fresh == 'true', True




def region_f1(a_kind=1, e1_present=True, e2_present=True, **kw):
    """Region of known finding F1 (S-flat): de-duplication removes the duplicate with
    list.remove(), i.e. by equality; once the first entry has absorbed the second one's
    checksums the two compare equal whenever tag and size agree and the first entry's hash
    names are a subset of the second's - then the *kept* object leaves the Manifest and the
    second (never refreshed) stays.  It fails when that second entry is not already exact
    for the file and the requested hash set."""
    if not (a_kind == 1 and e1_present and e2_present):
        return False
    if kw['e1_tag'] != kw['e2_tag'] or kw['e1_size'] != kw['e2_size']:
        return False
    if kw['e1_hs'] == 1 and kw['e2_hs'] == 0:
        return False
    hs = kw['hs']
    exact = (kw['e2_size'] == kw['a_size'] and kw['e2_dig'] == kw['a_dig']
             and kw['e2_hs'] == hs and (hs == 0 or kw['e2_dig2'] == kw['a_dig']))
    return not exact


def conditions(tier):
    cs = []
    full = tier != 'quick'
    ftags = DTAGS if full else ('DATA', 'EBUILD')
    ntags = ('DATA', 'EBUILD') if full else ('DATA',)
    parts = [('a_kind', range(2)), ('e1_present', (False, True)),
             ('e2_present', (False, True))]
    if full:
        parts += [('hs', range(2)), ('sort', (False, True)), ('force', (False, True))]
    for fx in partitions(parts):
        nm = 'flat_' + '_'.join(f'{k.replace("_", "")[:4]}{int(x)}' for k, x in fx.items())
        def reg(_fx=dict(fx), **kw):
            return region_f1(**{**_fx, **kw})
        cs.append(make_cond(
            nm, make_flat(full, ftags), run_upd, judge_upd, fx, timeout=1500 if full else 400,
            group='M-flat',
            known_regions={'F1-dedup-removes-kept-entry': reg},
            twin=(fx['a_kind'] == 1 and fx['e1_present'] and fx['e2_present']),
            descr='update_entries_for_directory + save_manifests on the model, then the '
                  'exactness oracle on the written model and a fresh real verification',
            bounds=f'S-flat: file a absent/symbolic; 0-2 prior entries for a (tags {ftags}, '
                   'hash sets {MD5} or {MD5,SHA1}, symbolic sizes and digests incl. equal '
                   'duplicates); new file b; vanished z; hidden file; IGNOREd directory; '
                   'DIST entry; requested hashes {MD5}|{MD5,SHA1}; '
                   + ('sort, force, b present, z listed independent'
                      if full else 'sort=force one symbolic bit; b present; z listed')
                   + '; written sizes symbolic'))
    for fx in partitions([('force', (False, True)), ('new_file', (False, True))]):
        nm = f'multi_f{int(fx["force"])}n{int(fx["new_file"])}'
        cs.append(make_cond(
            nm, s_multi, run_upd, judge_upd, fx, timeout=400, group='M-multi', twin=False,
            descr='update + save where the top-level Manifest references a second Manifest '
                  'in the same directory that lists the files',
            bounds='file b symbolic (stale or not), optional new file, force on/off'))
    rparts = [('edit', range(len(EDITS))), ('edit_dir', range(2)),
              ('e1_present', (False, True))]
    for fx in partitions(rparts):
        nm = 'rounds_' + '_'.join(f'{k.replace("_", "")[:5]}{int(x)}' for k, x in fx.items())
        cs.append(make_cond(
            nm, s_rounds, run_rounds, judge_rounds, fx, timeout=600, group='M-rounds',
            real=False, twin=(fx['edit'] == 1),
            descr='update+save, then an edit (' + EDITS[fx['edit']] + ' in '
                  + ('the top directory' if fx['edit_dir'] == 0 else 'sub/')
                  + '), then a second update+save with a fresh loader; exactness oracle and '
                    'fresh verification after the second round',
            bounds='file a symbolic before and after the edit; one prior DATA entry for a '
                   '(present, size, digest symbolic); hash set of the second round symbolic'))
    parts = [('sub_state', range(5)), ('up', range(2)), ('c_kind', range(2)),
             ('ep_present', (False, True)), ('ec_present', (False, True))]
    if full:
        parts += [('hs', range(2))]
    nfx = []
    for fx in partitions(parts):
        # the stale top-level file only exists in the stale-link state (sub_state 1)
        for a_stale in ((0, 1) if fx['sub_state'] == 1 else (0,)):
            nfx.append(dict(fx, a_stale=a_stale))
    for fx in nfx:
        if fx['sub_state'] in (3, 4) and fx['ec_present']:
            continue        # no usable sub-Manifest: the child slot does not exist
        nm = 'nest_' + '_'.join(f'{k.replace("_", "")[:4]}{int(x)}' for k, x in fx.items()
                                if k != 'a_stale') + ('_astale' if fx['a_stale'] else '')
        cs.append(make_cond(
            nm, make_nest(full, ntags), run_upd, judge_upd, fx, timeout=1500 if full else 400,
            group='M-nest',
            twin=(fx['c_kind'] == 1 and fx['sub_state'] == 0),
            descr='update (whole tree or sub-directory) + save on the model, exactness '
                  'oracle + fresh verification',
            bounds='S-nest: sub-Manifest registered / stale link (symbolic) / unregistered '
                   'valid / unregistered invalid / absent; sub/c absent or symbolic, listed '
                   f'in child (tags {ntags}) and/or parent (hash sets {{MD5}}|{{MD5,SHA1}}); '
                   'update of "" or "sub"; with a stale link the file next to the top-level '
                   'Manifest may be stale as well; '
                   + ('requested hashes, sort, force symbolic and independent' if full
                      else 'requested hashes {MD5,SHA1}, sort=force=False')))
    return cs


ASSUMPTIONS = [
    'Manifest serialisation replaced by snapshots of entry objects (the real dump still '
    'sorts and renders); written files get fresh unique digests and symbolic sizes',
    'hash functions collision free; an empty file has the empty digest',
]
OUTSIDE = ['profiles other than default (C19)', 'real text and compression codecs',
           'more than two prior entries per path', 'trees beyond the listed skeletons']
STUBS = ['ModelFS seams', 'ManifestFile.load/dump wrappers (entries <-> model node)']


def validate(seed, tier):
    from vf.scen import validate_against_real
    return validate_against_real(conditions('quick'), seed, per_cond=1, limit=28)
