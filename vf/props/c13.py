"""C13 - compression is transparent and follows the watermark."""
import posixpath

from vf import sym, tree
from vf.engine import Cond, specialise
from vf.modelfs import ModelFS, ROOT, mk, digest_for
from vf.scen import make_cond, partitions

from gemato.compression import get_compressed_suffix_from_filename
from gemato.profile import (DefaultProfile, EbuildRepositoryProfile,
                            BackwardsCompatEbuildRepositoryProfile)

PROPERTY = 'C13'
SUFS = ('', '.gz', '.bz2', '.lzma', '.xz')
FORMATS = ('gz', 'bz2', 'xz')


class Ctx:
    pass


def md5(t):
    return digest_for('MD5', t)


def build_tree(fs, fmt1, fmt2, f1, f2, stale1=False, stale2=False, meta=False):
    """Manifest -> s1/Manifest<fmt1> (one file f) and s2/Manifest<fmt2> (one file g);
    meta: each directory also holds a metadata.xml, which makes the ebuild profiles expect
    a Manifest there"""
    n1, n2 = 's1/Manifest' + fmt1, 's2/Manifest' + fmt2
    fs.add_file('s1/f', size=f1[0], digest=f1[1])
    fs.add_file('s2/g', size=f2[0], digest=f2[1])
    e1 = [mk('DATA', 'f', 2 if not stale1 else 3, MD5=md5('F'))]
    e2 = [mk('DATA', 'g', 2 if not stale2 else 3, MD5=md5('G'))]
    if meta:
        for d, ents in (('s1', e1), ('s2', e2)):
            fs.add_file(d + '/metadata.xml', size=1, digest='m')
            ents.append(mk('DATA', 'metadata.xml', 1, MD5=md5('m')))
    fs.add_manifest(n1, e1, size=11, digest='P')
    fs.add_manifest(n2, e2, size=12, digest='Q')
    fs.add_manifest('Manifest', [mk('MANIFEST', n1, 11, MD5=md5('P')),
                                 mk('MANIFEST', n2, 12, MD5=md5('Q'))])
    return n1, n2


# ---- transparency: verdicts do not depend on the format of the sub-Manifests -------------

def s_transp(v):
    c = Ctx()
    f1 = v.filetoken('f_size', 'f_dig')
    f2 = v.filetoken('g_size', 'g_dig')
    k1 = v.choice('fmt1', 5)
    k2 = v.choice('fmt2', 5)
    c.fs = ModelFS()
    build_tree(c.fs, '', '', f1, f2)
    c.fs2 = ModelFS()
    build_tree(c.fs2, SUFS[k1], SUFS[k2], f1, f2)
    c.path = ('', 's1', 's2')[v.choice('vp', 3)]
    return c


def run_transp(c):
    return (tree.run_verify(c.fs, 'Manifest', c.path),
            tree.run_verify(c.fs2, 'Manifest', c.path))


def judge_transp(c, out):
    return out[0] == out[1], out[0] == 'mismatch'


# ---- the watermark rule on save -----------------------------------------------------------

def s_water(v):
    c = Ctx()
    fs = c.fs = ModelFS()
    k1, k2 = v.choice('fmt1', 3), v.choice('fmt2', 3)
    c.fmt = (SUFS[k1], SUFS[k2])
    c.prof = v.choice('prof', 3)
    c.names = build_tree(fs, c.fmt[0], c.fmt[1], (2, 'F'), (2, 'G'),
                         stale1=v.bool('stale1'), stale2=v.bool('stale2'),
                         meta=c.prof != 0)
    c.u1, c.u2, c.ut = v.size('u1'), v.size('u2'), v.size('ut')
    fs.size_of = {posixpath.join(ROOT, 's1/Manifest'): c.u1,
                  posixpath.join(ROOT, 's2/Manifest'): c.u2,
                  posixpath.join(ROOT, 'Manifest'): c.ut}
    # what stat() reports for a compressed Manifest is unrelated to its uncompressed size
    fs.disk_size_of = {posixpath.join(ROOT, 's1/Manifest'): v.size('z1'),
                       posixpath.join(ROOT, 's2/Manifest'): v.size('z2')}
    c.watermark = v.size('watermark')
    c.force = v.bool('force')
    c.cfmt = FORMATS[v.choice('cfmt', 3)]
    return c


def run_water(c):
    # profiles that expect a Manifest in s1/ and s2/ (they hold a metadata.xml): the
    # Manifest that is there, whatever its format, is that Manifest
    prof = (DefaultProfile, EbuildRepositoryProfile,
            BackwardsCompatEbuildRepositoryProfile)[c.prof]()
    out = tree.run_update(c.fs, 'Manifest', '', ('MD5',), False, c.force,
                          loader_kw={'profile': prof},
                          save_kw={'compress_watermark': c.watermark,
                                   'compress_format': c.cfmt})
    c.fresh = tree.run_verify(c.fs, 'Manifest', '') if out == 'saved' else None
    return out


def judge_water(c, out):
    if out != 'saved':
        return False, False
    fs = c.fs
    written = {op[1] for op in fs.log if op[0] == 'write'}
    # the top-level Manifest is never renamed / compressed implicitly
    top = fs.node('Manifest')
    if top is None or any(fs.exists('Manifest' + s) for s in SUFS[1:]):
        return False, True
    interesting = False
    for d, old_suf, usize in (('s1', c.fmt[0], c.u1), ('s2', c.fmt[1], c.u2)):
        present = [s for s in SUFS if fs.exists(f'{d}/Manifest{s}')]
        if len(present) != 1:
            return False, True              # exactly one file per logical Manifest
        now = present[0]
        rewritten = any(w.startswith(posixpath.join(ROOT, d, 'Manifest')) for w in written)
        if not rewritten:
            if now != old_suf:
                return False, True
            continue
        interesting = True
        want_compr = sym.le(c.watermark, usize)
        if want_compr != (now != ''):
            return False, True
        if want_compr:
            # an already compressed file keeps its format, a new one gets the target format
            if old_suf != '' and now != old_suf:
                return False, True
            if old_suf == '' and now != '.' + c.cfmt:
                return False, True
    # parents reference the file that exists, with its true size/digest; tree verifies
    acc, problems = tree.in_use_manifests(fs, 'Manifest')
    if problems or len(acc) != 3:
        return False, True
    return c.fresh == 'true', interesting


# ---- K: policy and suffix functions --------------------------------------------------------

RELPATHS = ('Manifest', 'sub/Manifest', 'Manifest.gz', 'a/b/Manifest', 'x/Manifest.gz')


def k_policy(prof: int, rp: int, unc_size: int, watermark: int, has_ebuild: bool):
    profile = (DefaultProfile, EbuildRepositoryProfile,
               BackwardsCompatEbuildRepositoryProfile)[prof]()

    class M:
        entries = []
    m = M()
    m.entries = [mk('EBUILD', 'x-1.ebuild', 1)] if has_ebuild else [mk('DATA', 'y', 1)]
    got = profile.want_compressed_manifest(RELPATHS[rp], m, unc_size, watermark)
    exp = unc_size >= watermark and RELPATHS[rp] != 'Manifest'
    if prof == 2 and has_ebuild:
        exp = False
    return got == exp, unc_size == watermark


def k_policy_pre(prof: int, rp: int, unc_size: int, watermark: int, has_ebuild: bool):
    return 0 <= prof <= 2 and 0 <= rp < len(RELPATHS) and unc_size >= 0 and watermark >= 0


KSUF = ('', '.gz', '.bz2', '.lzma', '.xz', '.GZ', '.gzip', '.zst', '.gz.old', '.xz ')


def k_suffix(stem: str, k: int):
    name = stem + KSUF[k]
    got = get_compressed_suffix_from_filename(name)
    exp = None
    for s in ('.gz', '.bz2', '.lzma', '.xz'):
        # os.path.splitext semantics: an extension needs a non-dot character before it
        # within the last path component
        if name.endswith(s):
            base = name[:-len(s)].rsplit('/', 1)[-1]
            if base.strip('.') != '':
                exp = s[1:]
    return got == exp, exp is not None


def k_suffix_pre(stem: str, k: int):
    return len(stem) <= 3 and 0 <= k < len(KSUF)


# ---- K: the size that is compared with the watermark is the size of the file in bytes ------

class _Text:
    """text-mode file object as open_potentially_compressed_path(..., 'w', encoding='utf8')
    yields it: write()/flush(); .buffer.tell() is the number of bytes the UTF-8 encoder has
    produced so far"""

    def __init__(self):
        self.chunks = []
        self.buffer = self
        self.closed = False

    def __enter__(self):
        return self

    def __exit__(self, *a):
        self.closed = True
        return False

    def write(self, s):
        if self.closed:
            raise ValueError('I/O operation on closed file')
        self.chunks.append(s)
        return len(s)

    def flush(self):
        pass

    def tell(self):
        return utf8_len(self.chunks)

    def close(self):
        self.closed = True


def utf8_len(chunks):
    n = 0
    for s in chunks:
        for ch in s:
            o = ord(ch)
            n += 1
            if o >= 0x80:
                n += 1
                if o >= 0x800:
                    n += 1
                    if o >= 0x10000:
                        n += 1
    return n


def _bare_loader(entries, relpath):
    import gemato.recursiveloader as rl
    from gemato.manifest import ManifestFile
    m = ManifestFile()
    m.entries = entries
    ld = object.__new__(rl.ManifestRecursiveLoader)
    ld.root_directory = ROOT
    ld.top_level_manifest_filename = 'Manifest'
    ld.loaded_manifests = {relpath: m}
    ld.updated_manifests = set()
    ld.sign_openpgp = False
    ld.openpgp_env = None
    ld.openpgp_keyid = None
    return ld


SAVE_RELPATHS = ('sub/Manifest', 'sub/Manifest.gz', 'Manifest')


def k_save_size(path: str, rp: int, sort: bool, plen: int = 1, shape: int = 0):
    import gemato.recursiveloader as rl
    if 'open_potentially_compressed_path' not in rl.__dict__:
        raise RuntimeError('seam gemato.recursiveloader.open_potentially_compressed_path gone')
    relpath = SAVE_RELPATHS[rp]
    # shape: the free character alone, after, or before a fixed ASCII character
    path = (path, 'a' + path, path + 'a')[shape]
    ld = _bare_loader([mk('DATA', path, 7, MD5='00'), mk('IGNORE', 'b')], relpath)
    made = []

    def opener(p, mode, **kw):
        f = _Text()
        made.append((p, mode, kw.get('encoding'), f))
        return f
    saved = rl.open_potentially_compressed_path
    rl.open_potentially_compressed_path = opener
    try:
        ret = ld.save_manifest(relpath, sort=sort)
    finally:
        rl.open_potentially_compressed_path = saved
    ok = len(made) == 1 and made[0][0] == ROOT + '/' + relpath and made[0][1] == 'w' \
        and made[0][2] in ('utf8', 'utf-8', 'UTF-8')
    nbytes = utf8_len(made[0][3].chunks) if made else -1
    nchars = sum([len(c) for c in made[0][3].chunks]) if made else -1
    return ok and ret == nbytes, nbytes != nchars


def k_save_size_pre(path: str, rp: int, sort: bool, plen: int = 1, shape: int = 0):
    if not (len(path) == plen and 0 <= rp < len(SAVE_RELPATHS)):
        return False
    if path[0] == '/':
        return False
    for ch in path:
        if 0xD800 <= ord(ch) <= 0xDFFF:         # not encodable: no file can have this name
            return False
    return True


def k_save_size_real(a):
    """the same call on a real directory: return value vs os.path.getsize"""
    import os
    import shutil
    import tempfile
    relpath = SAVE_RELPATHS[a['rp']]
    d = tempfile.mkdtemp(prefix='vf-c13-')
    try:
        os.mkdir(os.path.join(d, 'sub'))
        path = (a['path'], 'a' + a['path'], a['path'] + 'a')[a.get('shape', 0)]
        ld = _bare_loader([mk('DATA', path, 7, MD5='00'), mk('IGNORE', 'b')], relpath)
        ld.root_directory = d
        ret = ld.save_manifest(relpath, sort=a['sort'])
        fn = os.path.join(d, relpath)
        if relpath.endswith('.gz'):
            import gzip
            with gzip.open(fn, 'rb') as f:
                size = len(f.read())
        else:
            size = os.path.getsize(fn)
        return {'reproduced': ret != size, 'detail': f'save_manifest returned {ret}, '
                f'uncompressed content is {size} bytes'}
    finally:
        shutil.rmtree(d)


def conditions(tier):
    cs = []
    full = tier != 'quick'
    for fx in partitions([('fmt1', range(5)), ('fmt2', range(5) if full else (0, 2))]):
        nm = f'transp_{fx["fmt1"]}{fx["fmt2"]}'
        cs.append(make_cond(
            nm, s_transp, run_transp, judge_transp, fx, timeout=300, group='M-transp',
            real=False, twin=(fx['fmt1'] == 1),
            descr='same tree with plain sub-Manifests and with sub-Manifests named '
                  f'Manifest{SUFS[fx["fmt1"]]!s} / Manifest{SUFS[fx["fmt2"]]!s}: verdicts equal',
            bounds='two sub-Manifests, one symbolic file each, verified path "", s1, s2'))
    wparts = [('fmt1', range(3) if full else (0, 1)), ('fmt2', range(3) if full else (0, 2)),
              ('force', (False, True)), ('cfmt', range(3) if full else (0, 2))]
    wfx = [dict(fx, prof=0) for fx in partitions(wparts)]
    if full:
        wfx += [dict(fx, prof=p) for fx in partitions(wparts) for p in (1, 2)]
    else:
        wfx += [dict(fmt1=a, fmt2=b, force=False, cfmt=0, prof=p)
                for a in (0, 1) for b in (0, 2) for p in (1, 2)]
    for fx in wfx:
        nm = f'water_{fx["fmt1"]}{fx["fmt2"]}_f{int(fx["force"])}_c{fx["cfmt"]}' \
             + (f'_p{fx["prof"]}' if fx['prof'] else '')
        cs.append(make_cond(
            nm, s_water, run_water, judge_water, fx, timeout=400, group='M-water', real=False,
            twin=True,
            descr='update+save with a symbolic compression watermark, symbolic uncompressed '
                  'sizes per Manifest (incl. equality with the watermark), target format '
                  'gz/bz2/xz, stale-or-not entries; afterwards: compressed iff size >= '
                  'watermark, format kept when already compressed, top-level untouched, '
                  'one file per Manifest, parents reference it, tree verifies',
            bounds='two sub-Manifests currently plain/.gz/.bz2; sizes and watermark any '
                   'int >= 0; default profile, or ebuild / old-ebuild profile on '
                   'directories that hold a metadata.xml'))
    for prof in range(3):
        for rp in range(len(RELPATHS)):
            cs.append(Cond(f'k_policy_p{prof}_r{rp}',
                           specialise(k_policy, prof=prof, rp=rp),
                           specialise(k_policy_pre, prof=prof, rp=rp), timeout=120,
                           group='K', twin=(rp == 1),
                           descr='want_compressed_manifest of the three profiles vs the '
                                 'documented rule', bounds='any size, any watermark'))
    for rp, shape in [(0, 0), (1, 0), (2, 0)] + ([(0, 1), (0, 2)] if full else []):
        c = Cond(f'k_save_size_r{rp}' + ('', '_after', '_before')[shape],
                 specialise(k_save_size, rp=rp, plen=1, shape=shape),
                 specialise(k_save_size_pre, rp=rp, plen=1, shape=shape),
                 timeout=600, group='K',
                 descr='real save_manifest + real ManifestFile.dump into a text handle that '
                       'counts UTF-8 bytes: the size returned to save_manifests (the value '
                       'compared with the watermark) is the number of bytes of the '
                       'uncompressed content, for any file name',
                 bounds='one DATA entry whose path is one arbitrary character (any code '
                        'point except surrogates, which no file name can hold) - thorough: '
                        'also after and before a fixed ASCII character - + one IGNORE entry; '
                        'plain and .gz sub-Manifest, top-level; sort on/off; two free '
                        'characters did not finish in 3000 s and are not claimed')
        c.replay_real = (lambda a, _rp=rp, _sh=shape: k_save_size_real(
            {**a, 'rp': _rp, 'shape': _sh}))
        cs.append(c)
    cs.append(Cond('k_suffix', k_suffix, k_suffix_pre, timeout=300, group='K',
                   descr='get_compressed_suffix_from_filename: by suffix only, exact case',
                   bounds='stem any str len<=3, 10 suffix shapes'))
    return cs


# validate() compares the real implementation with the property itself
VALIDATION_CHECKS_PROPERTY = True

ASSUMPTIONS = ['compression is a property of the file name in the model (codecs are C code)',
               'the uncompressed size reported by the text layer is a symbolic value per '
               'logical Manifest']
OUTSIDE = ['real codecs', 'repeated re-compression over several saves',
           'lzma/xz as current formats in the watermark runs (quick)']
STUBS = ['ModelFS seams', 'ManifestFile.load/dump wrappers',
         'gemato.recursiveloader.open_potentially_compressed_path -> UTF-8 byte counting text '
         'handle (k_save_size)']


def validate(seed, tier):
    """real filesystem, real codecs: a sub-Manifest is stored compressed iff its real
    uncompressed size >= watermark for watermarks size-1, size, size+1, starting from plain
    and from .gz; exactly one file remains; the tree verifies"""
    import os
    from vf.realcheck import RealTree, gemato
    agree, details, errs = 0, [], []
    for start_gz in (False, True):
        for delta in (-1, 0, 1):
            t = RealTree()
            try:
                for i in range(6):
                    t.write(f'sub/f{i}', bytes([65 + i]) * (i + 1))
                t.write('sub/Manifest', b'')
                t.write('Manifest', b'MANIFEST sub/Manifest 0\n')
                rc, out = gemato('update', '-H', 'MD5', t.root)
                size = len(t.read('sub/Manifest'))
                if start_gz:
                    rc, out = gemato('update', '-H', 'MD5', '-f', '-c', '0', t.root)
                    if not os.path.exists(os.path.join(t.root, 'sub/Manifest.gz')):
                        errs.append('watermark 0 did not compress')
                        continue
                rc, out = gemato('update', '-H', 'MD5', '-f', '-c', str(size + delta), t.root)
                plain = os.path.exists(os.path.join(t.root, 'sub/Manifest'))
                gz = os.path.exists(os.path.join(t.root, 'sub/Manifest.gz'))
                want_gz = size >= size + delta
                rcv, outv = gemato('verify', t.root)
                if rc or plain == gz or gz != want_gz or rcv:
                    errs.append(f'watermark {size + delta} vs size {size}, start_gz={start_gz}: '
                                f'plain={plain} gz={gz} verify rc={rcv}')
                else:
                    agree += 1
            finally:
                t.close()
    details.append({'cases': 'size-1/size/size+1 from plain and from gz'})
    return agree, details, errs
