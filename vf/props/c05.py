"""C05 - a signature is accepted only if good, valid, trusted, unexpired and unrevoked."""
import datetime
import io

from vf import sym
from vf.engine import Cond, specialise

import gemato.cli as g_cli
import gemato.openpgp as g_pgp
from gemato.exceptions import (
    OpenPGPNoImplementation, OpenPGPVerificationFailure, OpenPGPExpiredKeyFailure,
    OpenPGPRevokedKeyFailure, OpenPGPUnknownSigFailure, OpenPGPUntrustedSigFailure,
    OpenPGPSigningFailure, OpenPGPKeyImportError, OpenPGPKeyListingError,
    OpenPGPKeyRefreshError)

PROPERTY = 'C05'
FPR = b'81E12C16BD8DCD60BE180845136880E72A7B1384'
PFPR = b'3408B1C83D4C9CC7AD4A0C2A92B1DB2E90B7C8A1'

# gpg's signature-verification status vocabulary (doc/DETAILS), one well-formed line each
VOCAB = (
    b'NEWSIG',
    b'GOODSIG 136880E72A7B1384 gemato test key',
    b'BADSIG 136880E72A7B1384 gemato test key',
    b'ERRSIG 136880E72A7B1384 1 8 01 1500000000 9 -',
    b'EXPSIG 136880E72A7B1384 gemato test key',
    b'EXPKEYSIG 136880E72A7B1384 gemato test key',
    b'REVKEYSIG 136880E72A7B1384 gemato test key',
    b'VALIDSIG',            # arguments filled in below
    b'TRUST_UNDEFINED 0 pgp',
    b'TRUST_NEVER 0 pgp',
    b'TRUST_MARGINAL 0 pgp',
    b'TRUST_FULLY 0 pgp',
    b'TRUST_ULTIMATE 0 pgp',
    b'KEYEXPIRED 1500000000',
    b'KEYREVOKED',
    b'NO_PUBKEY 136880E72A7B1384',
    b'SIG_ID KEG9JLsmlUAUsNDLDHqGFU7yzBM 2017-07-14 1500000000',
    b'KEY_CONSIDERED ' + FPR + b' 0',
    b'VERIFICATION_COMPLIANCE_MODE 23',
)
NONE = len(VOCAB)            # "no line at this position"
TS_FORMS = ((b'1500000000', datetime.datetime(2017, 7, 14, 2, 40)),
            (b'20170714T024000', datetime.datetime(2017, 7, 14, 2, 40)))
EXP_FORMS = ((b'0', None), (b'1600000000', datetime.datetime(2020, 9, 13, 12, 26, 40)))


def status_line(idx, ts_form, exp_form):
    kw = VOCAB[idx]
    if kw == b'VALIDSIG':
        kw = b' '.join([b'VALIDSIG', FPR, b'2017-07-14', TS_FORMS[ts_form][0],
                        EXP_FORMS[exp_form][0], b'4', b'0', b'1', b'8', b'00', PFPR])
    return b'[GNUPG:] ' + kw


class _Popen:
    def __init__(self, world, argv, env):
        self.world = world
        world.calls.append({'argv': list(argv), 'env': env})

    def communicate(self, stdin=None):
        self.world.stdin.append(stdin)
        return self.world.out, self.world.err

    def wait(self):
        return self.world.exitst


class GpgWorld:
    """stands for the gpg binary: a status-fd transcript, stderr text and an exit status"""

    def __init__(self, out=b'', err=b'gpg: stderr text', exitst=0, missing=False):
        self.out, self.err, self.exitst, self.missing = out, err, exitst, missing
        self.calls, self.stdin = [], []

    PIPE = -1

    def Popen(self, argv, stdin=None, stdout=None, stderr=None, env=None):
        if self.missing:
            raise FileNotFoundError(2, 'No such file or directory', argv[0])
        return _Popen(self, argv, env)


class Swap:
    def __init__(self, mod, **names):
        self.mod, self.names = mod, names

    def __enter__(self):
        self.saved = {}
        for k, v in self.names.items():
            if k not in self.mod.__dict__ and k not in ('open', 'time'):
                raise RuntimeError(f'seam {self.mod.__name__}.{k} is gone')
            self.saved[k] = self.mod.__dict__.get(k, Swap)
            setattr(self.mod, k, v)
        return self

    def __exit__(self, *a):
        for k, v in self.saved.items():
            if v is Swap:
                delattr(self.mod, k)
            else:
                setattr(self.mod, k, v)
        return False


EXC = {
    OpenPGPVerificationFailure: 'verification', OpenPGPExpiredKeyFailure: 'expired',
    OpenPGPRevokedKeyFailure: 'revoked', OpenPGPUnknownSigFailure: 'unknown',
    OpenPGPUntrustedSigFailure: 'untrusted',
}


def reference(exitst, idxs):
    """documented acceptance rule, folded over the status lines"""
    if exitst != 0:
        return 'verification'
    good = valid = trusted = False
    for i in idxs:
        if i == NONE:
            continue
        kw = VOCAB[i].split(b' ')[0]
        if kw == b'GOODSIG':
            good = True
        elif kw == b'EXPKEYSIG':
            return 'expired'
        elif kw == b'REVKEYSIG':
            return 'revoked'
        elif kw == b'VALIDSIG':
            valid = True
        elif kw in (b'TRUST_MARGINAL', b'TRUST_FULLY', b'TRUST_ULTIMATE'):
            trusted = True
    if not (good and valid):
        return 'unknown'
    if not trusted:
        return 'untrusted'
    return 'accept'


def k_status(exitst: int, l1: int, l2: int, l3: int, l4: int, ts_form: int, exp_form: int):
    # harness bookkeeping outside the tracer: each line is a symbolic *choice* among
    # concrete well-formed shapes (forked through the solver by pick_index)
    with sym.untraced():
        idxs = tuple(sym.pick_index(x, NONE + 1) for x in (l1, l2, l3, l4))
        has_valid = 7 in idxs
        tf = sym.pick_index(ts_form, 2) if has_valid else 0
        ef = sym.pick_index(exp_form, 2) if has_valid else 0
        out = b''.join(status_line(i, tf, ef) + b'\n' for i in idxs if i != NONE)
        w = GpgWorld(out=out, exitst=exitst)
        env = g_pgp.SystemGPGEnvironment()
        osp = _OsProxy(_Env(False, '', False, ''))
    with Swap(g_pgp, subprocess=w, os=osp):
        try:
            sig = env.verify_file(io.StringIO('signed text'))
            got = 'accept'
        except tuple(EXC) as e:
            got = EXC[type(e)]
    with sym.untraced():
        ex0 = not sym.ne(exitst, 0)
        if ex0 and (2 in idxs or 3 in idxs):
            # gpg's contract: BADSIG / ERRSIG come with a non-zero exit status; what an
            # implementation makes of the impossible combination is not prescribed
            return True, False
        exp = reference(0 if ex0 else 1, idxs)
        ok = got == exp
        if ok and got == 'accept':
            ok = (sig.fingerprint == FPR.decode()
                  and sig.primary_key_fingerprint == PFPR.decode()
                  and sig.timestamp == TS_FORMS[tf][1]
                  and sig.expire_timestamp == EXP_FORMS[ef][1])
        # exactly the signed text was handed to gpg --verify
        ok = ok and w.stdin == [b'signed text'] and '--verify' in w.calls[0]['argv']
        return ok, exp == 'accept'


def k_status_pre(exitst: int, l1: int, l2: int, l3: int, l4: int, ts_form: int,
                 exp_form: int):
    return (0 <= l1 <= NONE and 0 <= l2 <= NONE and 0 <= l3 <= NONE and 0 <= l4 <= NONE
            and 0 <= ts_form <= 1 and 0 <= exp_form <= 1 and -2 <= exitst <= 3)


# ---- _spawn_gpg: exit status and missing binary ----------------------------------------------
RAISE = (None, OpenPGPVerificationFailure, OpenPGPSigningFailure, OpenPGPKeyImportError)


def k_spawn(exitst: int, cls: int, missing: bool):
    cls = sym.pick_index(cls, len(RAISE))
    missing = sym.b(missing)
    w = GpgWorld(exitst=exitst, missing=missing)
    env = g_pgp.SystemGPGEnvironment()
    with Swap(g_pgp, subprocess=w, os=_OsProxy(_Env(False, '', False, ''))):
        try:
            r = env._spawn_gpg(['gpg', '--x'], b'in', raise_on_error=RAISE[cls])
            got = ('ret', r[0])
        except OpenPGPNoImplementation:
            got = ('noimpl', None)
        except tuple(c for c in RAISE if c) as e:
            got = ('raised', type(e))
    if missing:
        return got == ('noimpl', None), False
    if RAISE[cls] is not None and exitst != 0:
        return got == ('raised', RAISE[cls]), True
    return got[0] == 'ret' and got[1] == exitst, False


def k_spawn_pre(exitst: int, cls: int, missing: bool):
    return 0 <= cls < len(RAISE) and -3 <= exitst <= 3


# ---- isolation: the private GNUPGHOME is forced into every gpg invocation ------------------
class _Env:
    """stands for os.environ: GNUPGHOME absent or any string, TZ absent or any string"""

    def __init__(self, has_home, home, has_tz, tz):
        self.d = {'PATH': '/usr/bin'}
        if has_home:
            self.d['GNUPGHOME'] = home
        if has_tz:
            self.d['TZ'] = tz

    def copy(self):
        return {**self.d}

    def get(self, k, default=None):
        return self.d.get(k, default)


class _OsProxy:
    def __init__(self, environ):
        import os as _os
        self.environ = environ
        self.path = _PathProxy()


class _PathProxy:
    @staticmethod
    def join(*a):
        import posixpath
        return posixpath.join(*a)

    @staticmethod
    def isdir(p):
        return False


class _NullFile:
    def __enter__(self):
        return self

    def __exit__(self, *a):
        return False

    def write(self, s):
        pass


class _Tempfile:
    @staticmethod
    def mkdtemp(prefix=''):
        return '/model-gnupghome/gemato.XXXX'


METHODS = ('verify_file', 'clear_sign_file', 'import_key', 'list_keys',
           'refresh_keys_keyserver', 'close')


def k_isolation(method: int, has_home: bool, home: str, has_tz: bool, tz: str,
                proxy: bool, trust: bool):
    out = (b'[GNUPG:] IMPORT_OK 1 ' + FPR + b'\n[GNUPG:] IMPORT_OK 0 ' + PFPR + b'\n'
           + status_line(1, 0, 0) + b'\n' + status_line(7, 0, 0) + b'\n'
           + status_line(12, 0, 0) + b'\n')
    w = GpgWorld(out=out, exitst=0)
    osp = _OsProxy(_Env(has_home, home, has_tz, tz))
    with Swap(g_pgp, subprocess=w, os=osp, tempfile=_Tempfile,
              open=lambda *a, **kw: _NullFile()):
        env = g_pgp.IsolatedGPGEnvironment(proxy='http://p:1' if proxy else None)
        myhome = env.home
        m = METHODS[method]
        if m == 'verify_file':
            env.verify_file(io.StringIO('x'))
        elif m == 'clear_sign_file':
            env.clear_sign_file(io.StringIO('x'), io.StringIO(), keyid='k')
        elif m == 'import_key':
            env.import_key(io.BytesIO(b'key'), trust=trust)
        elif m == 'list_keys':
            w.out = b'pub:u:255:22:136880E72A7B1384:1:::u:::scESC:\nfpr:::::::::' + FPR + b':\n'
            env.list_keys()
        elif m == 'refresh_keys_keyserver':
            env.refresh_keys_keyserver(keyserver='hkps://k')
        else:
            env.close()
    if not w.calls:
        return False, True
    for call in w.calls:
        e = call['env']
        if e.get('GNUPGHOME') != myhome:
            return False, True
        if proxy and e.get('http_proxy') != 'http://p:1':
            return False, True
    if m == 'import_key' and trust:
        # owner trust is set for exactly the imported fingerprints
        lines = sorted(w.stdin[1].split(b'\n'))
        if lines != sorted([b'', FPR + b':6:', PFPR + b':6:']) \
                or '--import-ownertrust' not in w.calls[1]['argv']:
            return False, True
    if m == 'import_key' and not trust and len(w.calls) != 1:
        return False, True
    return True, has_home


def k_isolation_pre(method: int, has_home: bool, home: str, has_tz: bool, tz: str,
                    proxy: bool, trust: bool):
    return 0 <= method < len(METHODS) and len(home) <= 3 and len(tz) <= 3


# ---- --require-signed-manifest --------------------------------------------------------------
class _Loader:
    last = None

    def __init__(self, tlm, **kw):
        _Loader.last = self
        self.openpgp_signed = _Loader.signed
        self.openpgp_signature = g_pgp.OpenPGPSignatureData('f', None, None, 'p')
        self.verified = False

    def find_timestamp(self):
        return None

    def assert_directory_verifies(self, relpath, **kw):
        self.verified = True
        return _Loader.result


def k_require_signed(require: bool, signed: bool, result: bool):
    cmd = g_cli.VerifyCommand()
    cmd.paths = ['/x']
    cmd.require_signed_manifest = require
    cmd.kwargs = {}
    cmd.init_kwargs = {}
    _Loader.signed, _Loader.result = signed, result

    class _Log:
        @staticmethod
        def error(*a):
            pass
        info = debug = warning = error
    with Swap(g_cli, ManifestRecursiveLoader=_Loader, logging=_Log,
              find_top_level_manifest=lambda p: '/x/Manifest'):
        rc = cmd()
    if require and not signed:
        return rc != 0 and not _Loader.last.verified, True
    return (rc == 0) == bool(result), False


def conditions(tier):
    cs = []
    full = tier != 'quick'
    for l1 in range(NONE + 1):
        fixed = {'l1': l1}
        if not full:
            fixed['l4'] = NONE
        cs.append(Cond(
            f'k_status_l{l1}', specialise(k_status, **fixed),
            specialise(k_status_pre, **fixed), timeout=2400 if full else 300, group='status',
            twin=(l1 == 1),
            descr='real SystemGPGEnvironment.verify_file with the gpg process replaced by a '
                  'transcript: every sequence of status lines from gpg\'s verification '
                  'vocabulary (doc/DETAILS), every exit status, both timestamp forms; result '
                  'vs the documented acceptance rule incl. returned signature data',
            bounds=f'{4 if full else 3} lines over {len(VOCAB)} keywords (+absent), exit '
                   'status -2..3; first line fixed per condition'))
    if not full:
        # four lines in the quick tier too, behind an accepting first signature: what follows
        # the first TRUST_ line (a second signature's report) still counts
        for l3 in (10, 11, 12):
            fixed = {'l1': 1, 'l2': 7, 'l3': l3}
            cs.append(Cond(
                f'k_status_after_{VOCAB[l3].split()[0].decode().lower()}',
                specialise(k_status, **fixed), specialise(k_status_pre, **fixed),
                timeout=300, group='status', twin=False,
                descr='the same after GOODSIG, VALIDSIG and an accepted TRUST_ line: every '
                      'fourth status line (e.g. the expired/revoked-key report of a second '
                      'signature) with every exit status',
                bounds=f'fourth line over {len(VOCAB)} keywords (+absent), exit status -2..3'))
    cs.append(Cond('k_spawn', k_spawn, k_spawn_pre, timeout=120, group='spawn',
                   descr='_spawn_gpg: non-zero exit raises the requested class; missing '
                         'binary raises OpenPGPNoImplementation',
                   bounds='exit status -3..3, 3 exception classes or none'))
    for mth in range(len(METHODS)):
        cs.append(Cond(
            f'k_isolation_{METHODS[mth]}', specialise(k_isolation, method=mth),
            specialise(k_isolation_pre, method=mth), timeout=300, group='isolation',
            descr=f'IsolatedGPGEnvironment.{METHODS[mth]} with a recording Popen: every gpg '
                  'invocation gets GNUPGHOME=the private home whatever the '
                  'caller\'s environment holds; owner trust for exactly the imported keys',
            bounds='user GNUPGHOME/TZ absent or any string of len<=3; proxy on/off'))
    cs.append(Cond('k_require_signed', k_require_signed, None, timeout=60, group='cli',
                   descr='VerifyCommand with --require-signed-manifest: non-zero exit and no '
                         'verification unless the loader reports an accepted signature',
                   bounds='require/signed/result bits'))
    return cs


# validate() compares the real implementation with the property itself
VALIDATION_CHECKS_PROPERTY = True

ASSUMPTIONS = [
    'gpg emits well-formed status lines from the vocabulary of doc/DETAILS (VALIDSIG with 10 '
    'arguments); the transcript stands for the binary',
    'gpg returns a non-zero exit status for bad signatures (its contract)',
]
OUTSIDE = ['gpg\'s own cryptography, key states and trust database (binary)',
           'byte mutations of really signed text', 'PGPyEnvironment (optional dependency)',
           'more than 4 status lines (the loop keeps three monotone flags; see DESIGN.md)']
STUBS = ['gemato.openpgp.subprocess -> transcript world', 'gemato.openpgp.os/tempfile/open '
         'for the isolated environment', 'gemato.cli.ManifestRecursiveLoader stub for -s']


def validate(seed, tier):
    """Ties the transcript model to the real gpg binary (where one is installed): a key is
    generated in a throw-away GNUPGHOME with `trust-model direct`, a Manifest clear-signed,
    and the real verify_file runs for every owner-trust level, for tampered text and for an
    unknown signer.  Each real status line must use a keyword of the vocabulary, VALIDSIG
    must be well-formed, and the real outcome must equal the reference rule applied to the
    real transcript."""
    import os
    import shutil
    import subprocess
    import tempfile
    if shutil.which('gpg') is None:
        return 0, [{'note': 'no gpg binary: transcript vocabulary not cross-checked'}], []
    agree, details, errs = 0, [], []
    home = tempfile.mkdtemp(prefix='vf-gpg-', dir=os.environ.get('TMPDIR', '/tmp'))
    os.chmod(home, 0o700)
    old = os.environ.get('GNUPGHOME')
    os.environ['GNUPGHOME'] = home
    kw_index = {v.split(b' ')[0]: i for i, v in enumerate(VOCAB)}
    extra_ok = {b'FAILURE', b'PROGRESS', b'KEYEXPIRED', b'NODATA', b'UNEXPECTED', b'PLAINTEXT',
                b'PLAINTEXT_LENGTH', b'SIGEXPIRED', b'NOTATION_NAME', b'NOTATION_DATA',
                b'POLICY_URL', b'WARNING', b'ERROR'}

    def gpg(*a, inp=None):
        return subprocess.run(['gpg', '--batch', '--pinentry-mode', 'loopback',
                               '--passphrase', ''] + list(a), input=inp,
                              capture_output=True)
    try:
        with open(os.path.join(home, 'gpg.conf'), 'w') as f:
            f.write('trust-model direct\n')
        gpg('--quick-generate-key', 'vf test <vf@example.org>', 'ed25519', 'sign', 'never')
        fpr = [ln.split(b':')[9] for ln in gpg('--with-colons', '--list-keys').stdout
               .splitlines() if ln.startswith(b'fpr:')][0].decode()
        signed = gpg('--clearsign', inp=b'DATA a 0\nDATA b 1\n').stdout.decode()
        cases = []
        for level, name in ((6, 'ultimate'), (5, 'full'), (4, 'marginal'), (3, 'never'),
                            (2, 'undefined')):
            cases.append((name, level, signed))
        cases.append(('tampered', 6, signed.replace('DATA b 1', 'DATA b 2')))
        env = g_pgp.SystemGPGEnvironment()
        for name, level, text in cases:
            gpg('--import-ownertrust', inp=f'{fpr}:{level}:\n'.encode())
            raw = subprocess.run(['gpg', '--batch', '--status-fd', '1', '--verify'],
                                 input=text.encode(), capture_output=True)
            idxs = []
            for ln in raw.stdout.splitlines():
                if not ln.startswith(b'[GNUPG:] '):
                    continue
                kw = ln.split(b' ')[1]
                if kw in kw_index:
                    idxs.append(kw_index[kw])
                    if kw == b'VALIDSIG' and len(ln.split(b' ')) < 12:
                        errs.append(f'real VALIDSIG line has fewer than 10 arguments: {ln}')
                elif kw not in extra_ok:
                    errs.append(f'real gpg status keyword outside the vocabulary: {kw}')
            exp = reference(raw.returncode, idxs)
            try:
                sig = env.verify_file(io.StringIO(text))
                got = 'accept'
                if sig.fingerprint != fpr:
                    errs.append('fingerprint mismatch with real gpg')
            except tuple(EXC) as e:
                got = EXC[type(e)]
            if got == exp:
                agree += 1
                details.append({'case': name, 'real_exit': raw.returncode, 'outcome': got,
                                'keywords': [VOCAB[i].split(b' ')[0].decode()
                                             for i in idxs]})
            else:
                errs.append(f'real gpg case {name}: verify_file gave {got}, the reference '
                            f'rule on the real transcript gives {exp}')
        # unknown signer: fresh empty keyring
        os.environ['GNUPGHOME'] = tempfile.mkdtemp(prefix='vf-gpg2-', dir=home)
        os.chmod(os.environ['GNUPGHOME'], 0o700)
        try:
            env.verify_file(io.StringIO(signed))
            errs.append('signature by an unknown key was accepted')
        except tuple(EXC):
            agree += 1
            details.append({'case': 'unknown signer', 'outcome': 'rejected'})
    finally:
        subprocess.run(['gpgconf', '--kill', 'all'], capture_output=True)
        if old is None:
            os.environ.pop('GNUPGHOME', None)
        else:
            os.environ['GNUPGHOME'] = old
        shutil.rmtree(home, ignore_errors=True)
    return agree, details, errs
