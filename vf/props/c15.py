"""C15 - top-level Manifest discovery returns the outermost covering Manifest."""
import posixpath

from vf import tree
from vf.modelfs import ModelFS, Node, ROOT, mk
from vf.scen import make_cond, partitions

from gemato.find_top_level import find_top_level_manifest

PROPERTY = 'C15'
NAMES = ('Manifest', 'Manifest.gz', 'Manifest.bz2')
IGN = ('none', 'start', 'ancestor', 'sibling', 'lookalike')
ALLNAMES = ('Manifest', 'Manifest.gz', 'Manifest.bz2', 'Manifest.lzma', 'Manifest.xz')


class Ctx:
    pass


def level_path(k, root=ROOT):
    return posixpath.join(*([root] + ['d%d' % i for i in range(1, k + 1)]))


def make_chain(depth, nnames=3):
    """/r (level 0) ... /r/d1/../d<depth> (start); per level: Manifest present?, its name,
    which IGNORE entry it carries; a device boundary between two levels"""
    def s_chain(v):
        c = Ctx()
        fs = c.fs = ModelFS()
        fs.sysroot = Node('dir', dev=9, ino=0)
        fs.sysroot.children = {'r': fs.root}
        boundary = v.choice('boundary', depth + 2)   # levels < boundary are on device 2
        xlevel = v.choice('xlevel', depth + 2)       # level whose Manifest file is elsewhere
        own = v.bool('own')
        c.levels = []
        comps = ['d%d' % i for i in range(1, depth + 1)]
        for k in range(depth + 1):
            rel = '/'.join(comps[:k])
            dev = 2 if k < boundary else 1
            if k == 0:
                fs.root.dev = dev
            else:
                fs.add_dir(rel, dev=dev)
            present = v.bool(f'p{k}')
            name = v.lazychoice(f'n{k}', nnames)
            ign = v.lazychoice(f'i{k}', len(IGN))
            mdev_other = xlevel == k
            lev = {'present': present, 'dev': dev}
            if present:
                nm = NAMES[name()]
                rest = comps[k:]
                kind = IGN[ign()] if rest else 'none'
                ents = [mk('DATA', 'unrelated', 1)]
                if kind == 'start':
                    ents.append(mk('IGNORE', '/'.join(rest)))
                elif kind == 'ancestor':
                    ents.append(mk('IGNORE', rest[0]))
                elif kind == 'sibling':
                    ents.append(mk('IGNORE', rest[0] + 'x'))
                elif kind == 'lookalike':
                    ents.append(mk('IGNORE', '/'.join(rest)[:-1]))
                if own and k >= 1:
                    # entries that say nothing about the start path: they are relative to
                    # this Manifest's own directory, but would match the start path if they
                    # were (wrongly) read relative to the parent directory
                    ents.append(mk('IGNORE', comps[k - 1]))
                    if rest:
                        ents.append(mk('IGNORE', '/'.join(comps[k - 1:])))
                mn = fs.add_manifest(posixpath.join(rel, nm), ents)
                # the Manifest file itself may sit on another device (bind mount of a file)
                mn.dev = (3 - dev) if mdev_other else dev
                lev.update(name=nm, ignores=kind in ('start', 'ancestor'), mdev=mn.dev)
            c.levels.append(lev)
        c.depth = depth
        c.allow_compressed = v.bool('allow_compressed')
        c.allow_xdev = v.bool('allow_xdev')
        return c
    return s_chain


def run_find(c):
    w = tree.world(c)
    with w.installed():
        c.root_used = w.root_path
        return find_top_level_manifest(level_path(c.depth, w.root_path),
                                       allow_xdev=c.allow_xdev,
                                       allow_compressed=c.allow_compressed)


def judge_find(c, out):
    """Reference: walk upward from the start; the outermost Manifest reachable without
    passing one that IGNOREs the start path; compressed names only when allowed; nothing
    on another device when crossing is disallowed."""
    last = None
    odev = c.levels[c.depth]['dev']
    for k in range(c.depth, -1, -1):
        lev = c.levels[k]
        if lev['dev'] != odev and not c.allow_xdev:
            break
        if not lev['present']:
            continue
        if lev['name'] != 'Manifest' and not c.allow_compressed:
            continue
        if lev['mdev'] != odev and not c.allow_xdev:
            break
        if lev['ignores']:
            break
        last = posixpath.join(level_path(k, c.root_used), lev['name'])
    got = posixpath.normpath(out) if out is not None else None
    return got == last, last is not None and last != posixpath.join(
        level_path(c.depth, c.root_used), 'Manifest')


def conditions(tier):
    cs = []
    full = tier != 'quick'
    for depth in ((1, 2, 3) if full else (1, 2)):
        parts = [('allow_compressed', (False, True)), ('allow_xdev', (False, True)),
                 ('boundary', range(depth + 2))]
        parts += [(f'p{k}', (False, True)) for k in range(depth + 1)]
        if full and depth == 3:
            parts.append(('own', (False, True)))
        for fx in partitions(parts):
            nm = f'find_d{depth}_' + ''.join(str(int(x)) for x in fx.values())
            cs.append(make_cond(
                nm, make_chain(depth, 3 if full else 2), run_find, judge_find, fx,
                timeout=1500 if full else 300, group='M-find',
                twin=(all(fx[f'p{k}'] for k in range(depth + 1))
                                  and fx['allow_xdev'] and fx['boundary'] == 0),
                descr=f'real find_top_level_manifest from depth {depth} on the model; per '
                      'level symbolic: Manifest name (plain/.gz/.bz2), IGNORE kind (none, the '
                      'start path, an ancestor of it, a sibling, a string-prefix look-alike, and optionally, '
                      'in every Manifest, the name of its own directory and the start path '
                      'relative to its parent), '
                      'Manifest file on another device; device boundary at any level',
                bounds=f'chain of {depth + 1} levels below /, presence bits partitioned'))
    return cs


ASSUMPTIONS = ['Manifest parsing replaced by model entry objects (find_path_entry and the '
               'component-wise matching are the real code)',
               'the model root "/" holds no Manifest']
OUTSIDE = ['depth > 3', 'several Manifest names present at one level',
           'start paths that are, or go through, a symbolic link (the model resolves ".." '
           'textually; gemato walks physically but matches IGNORE on the textual relative '
           'path, and the statement does not say which ancestors count there)']
STUBS = ['gemato.find_top_level.os / open_potentially_compressed_path -> ModelFS']


def validate(seed, tier):
    """the same chains as real directories (single device) below a temporary directory -
    the real walk continues up to the real "/" - with the unpatched gemato"""
    from vf.scen import validate_against_real
    return validate_against_real(conditions('quick'), seed, per_cond=1, limit=60)
