"""C06 - I/O errors never turn into success or into 'file absent'."""
import errno

from vf import tree
from vf import venv_verify as ve
from vf.engine import Cond, specialise
from vf.modelfs import ModelFS, mk, digest_for
from vf.scen import make_cond, partitions

import gemato.verify as gv
from gemato.exceptions import GematoException, ManifestInvalidPath
from gemato.manifest import new_manifest_entry

PROPERTY = 'C06'
ERRNOS = (errno.EACCES, errno.EPERM, errno.EIO, errno.ENOMEM, errno.ELOOP, errno.ENOTDIR,
          errno.EISDIR, errno.EMFILE, errno.ENFILE, errno.EOVERFLOW, errno.ENXIO,
          errno.EOPNOTSUPP)
M_ERRNOS = ERRNOS[:10]


# ---------------------------------------------------------------------------------------
# K: one file, fault at a symbolic call position with a symbolic errno

def k_pre(kind: int, listed: bool, fault_at: int, en: int, size_ok: bool, dig_ok: bool,
          use_mtime: bool, old: bool) -> bool:
    if not (1 <= kind <= 5 and 0 <= fault_at <= 4 and 0 <= en < len(ERRNOS)):
        return False
    # contract of open(2): ENXIO / EOPNOTSUPP are returned for FIFOs, sockets and device
    # nodes only, never for a regular file or a directory
    if ERRNOS[en] in (errno.ENXIO, errno.EOPNOTSUPP) and fault_at == 0 and kind in (1, 2):
        return False
    return True


def _file(kind, fault_at, en, size_ok, dig_ok, old):
    return ve.OneFile(ve.KINDS[kind], st_size=4 if size_ok else 5, mtime=1 if old else 9,
                      true_size=4 if size_ok else 5,
                      digests={'md5': 'x' if dig_ok else 'y'},
                      fault_at=fault_at, fault_errno=ERRNOS[en])


def k_verify_fault(kind: int, listed: bool, fault_at: int, en: int, size_ok: bool,
                   dig_ok: bool, use_mtime: bool, old: bool):
    e = new_manifest_entry('DATA', 'f', 4, {'MD5': 'x'}) if listed else None
    f = _file(kind, fault_at, en, size_ok, dig_ok, old)
    with ve.Installed(f):
        try:
            ret, diff = gv.verify_path('/r/f', e, last_mtime=5 if use_mtime else None)
            raised = None
        except OSError as err:
            raised = err.errno
    if not f.fault_fired:
        return True, False
    if raised is not None:
        return raised == ERRNOS[en], True
    # the call returned although a filesystem call failed: it must be a mismatch; never
    # success for a listed file, never "absent" (= success of the stray check) for an
    # object that exists
    return ret is False, True


def k_update_fault(kind: int, listed: bool, fault_at: int, en: int, size_ok: bool,
                   dig_ok: bool, use_mtime: bool, old: bool):
    e = new_manifest_entry('DATA', 'f', 4, {'MD5': 'x'})
    f = _file(kind, fault_at, en, size_ok, dig_ok, old)
    with ve.Installed(f):
        try:
            gv.update_entry_for_path('/r/f', e, hashes=['MD5'],
                                     last_mtime=5 if use_mtime else None)
            raised = None
        except OSError as err:
            raised = ('os', err.errno)
        except ManifestInvalidPath as err:
            raised = ('invalid', err.detail[0])
    if not f.fault_fired:
        return True, False
    if raised is None:
        return False, True
    if raised[0] == 'invalid':
        # a non-regular object may be reported as such; "does not exist" is never
        # acceptable for an object that exists
        return raised[1] == '__type__' and kind != 1, True
    return raised[1] == ERRNOS[en], True


# ---------------------------------------------------------------------------------------
# M: whole-tree verification / update scan with one fault among all filesystem calls

class Ctx:
    pass


def md5(t):
    return digest_for('MD5', t)


def make_tree(nest):
    def s_fault(v):
        c = Ctx()
        fs = c.fs = ModelFS(written_sizes=[5, 6, 7])
        fs.add_file('a', size=2, digest='A')
        fs.add_file('b', size=3, digest='B')
        top = [mk('DATA', 'a', 2, MD5=md5('A')), mk('DATA', 'b', 3, MD5=md5('B'))]
        if v.bool('stray'):
            fs.add_file('stray', size=1, digest='s')
        if nest:
            fs.add_file('sub/c', size=4, digest='C')
            fs.add_file('sub/deep/d', size=1, digest='D')
            fs.add_manifest('sub/Manifest', [mk('DATA', 'c', 4, MD5=md5('C')),
                                             mk('DATA', 'deep/d', 1, MD5=md5('D'))],
                            size=9, digest='S')
            top.append(mk('MANIFEST', 'sub/Manifest', 9, MD5=md5('S')))
        fs.add_manifest('Manifest', top)
        c.stale = v.bool('stale')
        if c.stale:
            fs.node('b').digest = 'X'
        fs.fault_at = v.int('fault_at', 0, 60)
        fs.fault_errno = M_ERRNOS[v.choice('en', len(M_ERRNOS))]
        c.op = v.choice('op', 3)
        return c
    return s_fault


def run_fault(c):
    if c.op == 0:
        return tree.run_verify(c.fs, 'Manifest', '')
    if c.op == 2:
        # keep-going mode as `gemato verify -k` installs it: every report returns False
        c.reports = []

        def handler(err):
            c.reports.append(err.path)
            return False
        return tree.run_verify(c.fs, 'Manifest', '', fail_handler=handler)
    return tree.run_update(c.fs, 'Manifest', '', ('MD5',), False, False)


def judge_fault(c, out):
    fs = c.fs
    if fs.fault_fired is None:
        return True, False
    want = 'oserror:%s' % fs.fault_errno
    if c.op == 0:
        # the injected error, or a mismatch; never success
        return out in (want, 'mismatch'), True
    if c.op == 2:
        # keep-going: the error itself, or a reported failure; never success
        return out in (want, 'false'), True
    # update: fails, and has written nothing
    failed = out == want or out.startswith('error:')
    return failed and not fs.log, True


# ---------------------------------------------------------------------------------------
# M-find: discovery of the top-level Manifest (what `gemato verify <dir>` does first) with
# one fault among its filesystem calls

def make_find(depth):
    from vf.props import c15
    chain = c15.make_chain(depth, 2)

    def s_find_fault(v):
        c = chain(v)
        c.fs.fault_at = v.int('fault_at', 0, 16)
        c.fs.fault_errno = F_ERRNOS[v.choice('en', len(F_ERRNOS))]
        return c
    return s_find_fault


F_ERRNOS = (errno.EACCES, errno.EIO, errno.ELOOP)


def run_find_fault(c):
    from vf.props import c15
    try:
        return ('found', c15.run_find(c))
    except OSError as e:
        return 'oserror:%s' % e.errno


def judge_find_fault(c, out):
    if c.fs.fault_fired is None:
        return True, False
    # an object on the way up could not be inspected or opened: discovery must end with
    # that error - continuing means the object was treated as absent (a Manifest that is
    # skipped this way makes verification start from the wrong top-level Manifest)
    return out == 'oserror:%s' % c.fs.fault_errno, True


def conditions(tier):
    cs = []
    for kind in range(1, 6):
        for name, fn in (('k_verify_fault', k_verify_fault),
                         ('k_update_fault', k_update_fault)):
            cs.append(Cond(
                f'{name}_{ve.KINDS[kind]}', specialise(fn, kind=kind),
                specialise(k_pre, kind=kind), timeout=200, group='K',
                descr=f'real {name[2:-6]}_path/get_file_metadata on a {ve.KINDS[kind]} with '
                      'an OSError injected at a symbolic call position '
                      '(open, fstat/stat, fdopen, read) and symbolic errno',
                bounds=f'errno in {[errno.errorcode[e] for e in ERRNOS]}; listed or stray '
                       'check; matching or mismatching size/digest; with/without last_mtime'))
    full = tier != 'quick'
    for nest in ((False, True) if full else (True,)):
        for fx in partitions([('op', range(3)), ('stray', (False, True)),
                              ('stale', (False, True))]):
            nm = f'm_fault_{"nest" if nest else "flat"}_op{fx["op"]}_s{int(fx["stray"])}' \
                 f'{int(fx["stale"])}'
            cs.append(make_cond(
                nm, make_tree(nest), run_fault, judge_fault, fx, timeout=400, group='M',
                real=False,
                descr=('assert_directory_verifies', 'update_entries_for_directory+'
                       'save_manifests', 'assert_directory_verifies with a keep-going handler '
                       'returning False')[fx['op']]
                + ' on the model with one OSError injected at a symbolic position among all '
                  'filesystem calls of the run (open, fstat, stat, scandir, fdopen, read, '
                  'Manifest open)',
                bounds='S-nest tree (Manifest, a, b, sub/{Manifest,c,deep/d}), optional '
                       'stray, optional stale file; fault position 0..60 (more than the run '
                       f'issues); errno in {[errno.errorcode[e] for e in M_ERRNOS]}'))
    for depth in ((1, 2) if full else (1,)):
        fparts = [(f'p{k}', (False, True)) for k in range(depth + 1)]
        for fx in partitions(fparts):
            nm = f'm_find_fault_d{depth}_' + ''.join(str(int(x)) for x in fx.values())
            # one device, no foreign Manifest file, crossing allowed (C15 varies these)
            fx = dict(fx, boundary=0, xlevel=depth + 1, own=False, allow_xdev=True)
            cs.append(make_cond(
                nm, make_find(depth), run_find_fault, judge_find_fault, fx, timeout=400,
                group='M-find', real=False,
                descr='find_top_level_manifest on the chain model of C15 with one OSError '
                      'injected at a symbolic position among its filesystem calls (stat of '
                      'a directory, existence/type tests, open and fstat of a Manifest): the '
                      'error is raised, the object is never treated as absent',
                bounds=f'chain of {depth + 1} levels, Manifest presence per level '
                       'partitioned, names, IGNORE kinds and allow_compressed symbolic as '
                       'in C15, one device; fault position 0..16 (more than the run issues); '
                       f'errno in {[errno.errorcode[e] for e in F_ERRNOS]}'))
    return cs


# validate() compares the real implementation with the property itself
VALIDATION_CHECKS_PROPERTY = True

ASSUMPTIONS = [
    'open(2) returns ENXIO/EOPNOTSUPP only for FIFOs, sockets and device nodes',
    'one fault per run; the failing call raises OSError(errno) and has no other effect',
    'os.walk reports scandir errors through onerror (documented protocol)',
]
OUTSIDE = ['faults during save_manifests (the statement covers the scan phase)',
           'faults inside decompressors', 'ENOENT (means absent by definition)',
           'descriptor hygiene: verify_path leaks the descriptor on early returns (noted in '
           'DESIGN.md, not covered by the statement)']
STUBS = ['gemato.verify.os/open/fcntl/hash_file -> one-file environment with fault plan',
         'gemato.find_top_level.os / open_potentially_compressed_path -> ModelFS (M-find)',
         'ModelFS with a global call counter']


def validate(seed, tier):
    """real filesystem (works as root too): a self-referencing symlink gives ELOOP, an error
    other than ENOENT, on open()/stat().  As a stray, as a listed file and as a directory
    component it must make verify fail (never exit 0) and update fail without touching the
    Manifest."""
    import os
    from vf.realcheck import RealTree, gemato
    agree, details, errs = 0, [], []
    for where, listed in (('loop', False), ('loop', True), ('sub/loop', False)):
        for cmd in ('verify', 'verify-k', 'update'):
            t = RealTree()
            try:
                t.write('a', b'aa')
                t.write('sub/c', b'ccc')
                t.write('Manifest', b'')
                rc, out = gemato('update', '-H', 'MD5', t.root)
                if listed:
                    with open(os.path.join(t.root, 'Manifest'), 'a') as f:
                        f.write(f'DATA {where} 1 MD5 00\n')
                os.symlink(os.path.basename(where), os.path.join(t.root, where))
                before = t.read('Manifest')
                args = {'verify': ['verify'], 'verify-k': ['verify', '-k'],
                        'update': ['update', '-H', 'MD5']}[cmd] + [t.root]
                rc, out = gemato(*args)
                if rc == 0:
                    errs.append(f'{cmd} with unreadable {where} (listed={listed}) exited 0')
                elif cmd == 'update' and t.read('Manifest') != before:
                    errs.append(f'failing update rewrote the Manifest ({where})')
                else:
                    agree += 1
            finally:
                t.close()
    details.append({'object': 'self-referencing symlink (ELOOP)', 'cases': 9})
    # discovery: the Manifest above the verified sub-directory cannot be opened
    t = RealTree()
    try:
        t.write('sub/c', b'ccc')
        t.write('sub/Manifest', b'')
        rc, out = gemato('update', '-H', 'MD5', os.path.join(t.root, 'sub'))
        os.symlink('Manifest', os.path.join(t.root, 'Manifest'))
        rc, out = gemato('verify', os.path.join(t.root, 'sub'))
        if rc == 0:
            errs.append('verify of a sub-directory exited 0 although the Manifest above it '
                        'cannot be opened (ELOOP)')
        else:
            agree += 1
    finally:
        t.close()
    details.append({'object': 'unopenable Manifest above the verified directory', 'cases': 1})
    return agree, details, errs
