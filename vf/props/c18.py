"""C18 - bad input produces a diagnosed failure, not an internal error."""
import posixpath

from vf import sym, tree
from vf.engine import Cond, specialise
from vf.modelfs import ModelFS, Node, ROOT, mk, digest_for, crash_origin
from vf.scen import make_cond, partitions
from vf.props.c05 import Swap

import gemato.cli as g_cli
import gemato.verify as gv
from gemato.exceptions import GematoException
from gemato.manifest import new_manifest_entry, manifest_hashes_to_hashlib

PROPERTY = 'C18'
TAGS7 = ('DATA', 'MISC', 'EBUILD', 'AUX', 'MANIFEST', 'IGNORE', 'DIST')
INTERNAL = (AssertionError, AttributeError, KeyError, IndexError, TypeError, ValueError,
            NotImplementedError, UnboundLocalError, OverflowError)


def mk7(t, size, dig):
    tag = TAGS7[t]
    if tag == 'IGNORE':
        return new_manifest_entry('IGNORE', 'p')
    return new_manifest_entry(tag, 'p', size, {'MD5': dig})


# K: entry compatibility is total over every pair of local-file entry kinds
def k_compat_total(t1: int, t2: int, s1: int, s2: int, d1: int, d2: int):
    t1, t2 = sym.pick_index(t1, 7), sym.pick_index(t2, 7)
    a, b = mk7(t1, s1, d1), mk7(t2, s2, d2)
    try:
        ret, diff = gv.verify_entry_compatibility(a, b)
    except GematoException:
        return True, False
    return (ret is True or ret is False), (t1 == 5 and t2 == 5)


def k_compat_pre(t1: int, t2: int, s1: int, s2: int, d1: int, d2: int):
    return 0 <= t1 < 7 and 0 <= t2 < 7 and s1 >= 0 and s2 >= 0


HNAMES = ('MD5', 'SHA1', 'WHIRLPOOL', 'FOO', 'md5', '__size__', '')


def k_hash_names(i: int, j: int):
    names = [HNAMES[sym.pick_index(i, len(HNAMES))], HNAMES[sym.pick_index(j, len(HNAMES))]]
    try:
        list(manifest_hashes_to_hashlib(names))
    except GematoException:
        return True, True
    return all(n in ('MD5', 'SHA1', 'WHIRLPOOL') for n in names), False


# M: the command line tool on model trees with odd (but legal) features
class Ctx:
    pass


ODD = ('dup_ignore', 'ignore_and_data', 'unknown_hash', 'unsupported_hash', 'nul_path',
       'entry_is_dir', 'entry_under_file', 'unregistered_sub', 'dup_dist', 'dup_data_misc',
       'manifest_entry_is_dir', 'dup_manifest_entry', 'dup_timestamp', 'ignore_top_manifest',
       'entry_for_top_manifest', 'empty_top', 'data_and_manifest', 'aux_missing',
       'ignore_then_listed_below', 'manifest_missing_file', 'compressed_sub_invalid',
       'hidden_listed_dir', 'unregistered_top_gz', 'manifest_nul_path')


def s_odd(v):
    c = Ctx()
    fs = c.fs = ModelFS(written_sizes=[5, 6, 7, 8])
    fs.sysroot = Node('dir', dev=1, ino=0)
    fs.sysroot.children = {'r': fs.root}
    odd = c.odd = ODD[v.choice('odd', len(ODD))]
    md5 = digest_for('MD5', 'A')
    fs.add_file('a', size=2, digest='A')
    fs.add_file('sub/c', size=3, digest='C')
    import datetime as _dt
    from gemato.manifest import ManifestEntryTIMESTAMP as _TS
    # (a TIMESTAMP as the first line: hand-written Manifests may have it anywhere)
    top = [_TS(_dt.datetime(2019, 1, 1)), mk('DATA', 'a', 2, MD5=md5),
           mk('DATA', 'vanished', 1, MD5=md5)]
    sub = [mk('DATA', 'c', 3, MD5=digest_for('MD5', 'C'))]
    registered = True
    if odd == 'dup_ignore':
        fs.add_file('ig/x', size=1, digest='x')
        top += [mk('IGNORE', 'ig'), mk('IGNORE', 'ig')]
    elif odd == 'ignore_and_data':
        top += [mk('IGNORE', 'a')]
    elif odd == 'unknown_hash':
        top[1] = mk('DATA', 'a', 2, FOO='f00')
    elif odd == 'unsupported_hash':
        top[1] = mk('DATA', 'a', 2, WHIRLPOOL='abc')
    elif odd == 'nul_path':
        top += [mk('DATA', 'n\0ul', 1, MD5=md5)]
    elif odd == 'entry_is_dir':
        top += [mk('DATA', 'sub', 1, MD5=md5)]
    elif odd == 'entry_under_file':
        top += [mk('DATA', 'a/below', 1, MD5=md5)]
    elif odd == 'unregistered_sub':
        registered = False
    elif odd == 'dup_dist':
        top += [mk('DIST', 'd.tar', 1, MD5=md5), mk('DIST', 'd.tar', 2, MD5=md5)]
    elif odd == 'dup_data_misc':
        top += [mk('MISC', 'a', 2, MD5=md5)]
    elif odd == 'dup_manifest_entry':
        top += [mk('MANIFEST', 'sub/Manifest', 4, MD5=digest_for('MD5', 'S'))]
    elif odd == 'dup_timestamp':
        import datetime
        from gemato.manifest import ManifestEntryTIMESTAMP
        top += [ManifestEntryTIMESTAMP(datetime.datetime(2020, 1, 1)),
                ManifestEntryTIMESTAMP(datetime.datetime(2021, 1, 1))]
    elif odd == 'ignore_top_manifest':
        top += [mk('IGNORE', 'Manifest')]
    elif odd == 'entry_for_top_manifest':
        top += [mk('DATA', 'Manifest', 1, MD5=md5)]
    elif odd == 'empty_top':
        top, registered = [], False
    elif odd == 'data_and_manifest':
        top += [mk('DATA', 'sub/Manifest', 4, MD5=digest_for('MD5', 'S'))]
    elif odd == 'aux_missing':
        top += [mk('AUX', 'gone.patch', 1, MD5=md5)]
    elif odd == 'ignore_then_listed_below':
        fs.add_file('ig/x', size=1, digest='x')
        top += [mk('IGNORE', 'ig'), mk('DATA', 'ig/x', 1, MD5=digest_for('MD5', 'x'))]
    elif odd == 'manifest_missing_file':
        top += [mk('MANIFEST', 'nodir/Manifest', 1, MD5=md5)]
    elif odd == 'compressed_sub_invalid':
        fs.add_manifest('z/Manifest.gz', [], size=2, digest='Z', invalid=True)
        top += [mk('MANIFEST', 'z/Manifest.gz', 2, MD5=digest_for('MD5', 'Z'))]
    elif odd == 'unregistered_top_gz':
        fs.add_manifest('Manifest.gz', [mk('DATA', 'long-gone', 1, MD5=md5)], size=3,
                        digest='G')
    elif odd == 'manifest_nul_path':
        top += [mk('MANIFEST', 'n\0ul/Manifest', 1, MD5=md5)]
    elif odd == 'hidden_listed_dir':
        fs.add_file('.hid/f', size=1, digest='f')
        top += [mk('DATA', '.hid/f', 1, MD5=digest_for('MD5', 'f'))]
    fs.add_manifest('sub/Manifest', sub, size=4, digest='S')
    if odd == 'manifest_entry_is_dir':
        fs.add_dir('dirm')
        top += [mk('MANIFEST', 'dirm/Manifest', 1, MD5=md5)]
        fs.add_dir('dirm/Manifest')
    if registered:
        top.append(mk('MANIFEST', 'sub/Manifest', 4, MD5=digest_for('MD5', 'S')))
    fs.add_manifest('Manifest', top)
    c.cmd = v.choice('cmd', 4)      # verify, update, update sub, create
    c.keep_going = v.bool('keep_going')
    c.profile = ('default', 'ebuild', 'old-ebuild')[v.choice('profile', 3)]
    return c


class _Log:
    @staticmethod
    def error(*a):
        pass
    info = debug = warning = error

    @staticmethod
    def getLogger():
        return _Log

    @staticmethod
    def setLevel(x):
        pass
    INFO = DEBUG = 10


def run_cli(c):
    fs = c.fs
    if c.cmd == 0:
        argv = ['gemato', 'verify'] + (['-k'] if c.keep_going else []) + [ROOT]
    elif c.cmd == 1:
        argv = ['gemato', 'update', '-p', c.profile, '-H', 'MD5', ROOT]
    elif c.cmd == 2:
        argv = ['gemato', 'update', '-p', c.profile, '-H', 'MD5', ROOT + '/sub']
    else:
        argv = ['gemato', 'create', '-p', c.profile, '-H', 'MD5', ROOT]
    with fs.installed(), Swap(g_cli, logging=_Log):
        try:
            rc = g_cli.main(argv)
            return 'rc:%s' % rc
        except OSError as e:
            return 'oserror:%s' % e.errno
        except INTERNAL as e:
            return crash_origin(e)
        except SystemExit as e:
            return 'exit:%s' % e.code


def judge_cli(c, out):
    # only the library's own failures (exit status 1), success, or a genuine OS error
    ok = out in ('rc:0', 'rc:1') or out.startswith('oserror:')
    return ok, out == 'rc:1'


def conditions(tier):
    cs = []
    cs.append(Cond('compat_total', k_compat_total, k_compat_pre, timeout=300, group='K',
                   descr='verify_entry_compatibility on every pair of entry kinds (incl. '
                         'IGNORE x IGNORE, IGNORE x DATA, DIST) with symbolic sizes/digests: '
                         'returns a verdict or raises a library exception',
                   bounds='7 x 7 tags, sizes/digests any int'))
    cs.append(Cond('hash_names', k_hash_names, lambda i, j: 0 <= i < 7 and 0 <= j < 7,
                   timeout=120, group='K',
                   descr='manifest_hashes_to_hashlib on known, unknown, lower-case, empty and '
                         'pseudo names: result or library exception, never KeyError',
                   bounds='7 x 7 names'))
    for odd in range(len(ODD)):
        for cmd in range(4):
            fx = {'odd': odd, 'cmd': cmd}
            regions = None
            if ODD[odd] == 'unregistered_top_gz' and cmd in (1, 3):
                # known finding F12: second, unreferenced Manifest.gz in the top directory
                regions = {'F12-unreferenced-second-top-level-manifest':
                           lambda keep_going, profile: profile == 0}
            cs.append(make_cond(
                f'cli_{ODD[odd]}_c{cmd}', s_odd, run_cli, judge_cli, fx, timeout=300,
                group='M-cli', real=False, twin=False, known_regions=regions,
                descr=f'gemato.cli.main for {("verify", "update", "update sub", "create")[cmd]} '
                      f'on a model tree with the odd feature "{ODD[odd]}": exit status 0/1 or '
                      'a genuine OSError; no internal error escapes',
                bounds='one odd feature per tree; profile default/ebuild/old-ebuild; '
                       'keep-going on/off'))
    # "any UTF-8 Manifest text": the field-level parser conditions of C09 that let nothing
    # but the library's syntax error escape are part of this claim too (same functions, same
    # bounds; a failure is reported under the property whose check is running)
    from vf.props import c09
    cs += c09.size_field_conditions(tier)
    return cs


# validate() compares the real implementation with the property itself
VALIDATION_CHECKS_PROPERTY = True

ASSUMPTIONS = ['the model\'s os.open/os.stat enforce the kernel\'s NUL rule as the real ones '
               'do (ValueError: embedded null byte)',
               'Manifest parsing replaced by model entry objects here; text-level totality is '
               'C09']
OUTSIDE = ['argparse usage errors (exit 2 by design)',
           'combinations of several odd features in one tree']
STUBS = ['ModelFS seams', 'gemato.cli.logging -> null logger (message formatting would '
         'realise symbolic values)']


def validate(seed, tier):
    """real filesystem, real CLI in a fresh interpreter: odd Manifest *texts* (the model runs
    use entry objects) - duplicate IGNORE, unknown hash, NUL / out-of-range / escaped-slash
    paths, entry naming a directory, entry under a file, unregistered sub-Manifest, junk -
    through verify, update (tree and sub-directory) and create with every profile: exit
    status 0/1/2 and no traceback"""
    from vf.realcheck import RealTree, gemato
    agree, details, errs = 0, [], []
    odd = {
        'dup_ignore': 'DATA a 2 MD5 x\nIGNORE ig\nIGNORE ig\n',
        'unknown_hash': 'DATA a 2 FOO f00\n',
        'nul_path': 'DATA n\\x00ul 1 MD5 x\nDATA a 2 MD5 x\n',
        'out_of_range': 'DATA a\\U00110000 1\n',
        'escaped_slash': 'DATA \\x2Fabs 1\n',
        'entry_is_dir': 'DATA sub 1 MD5 x\n',
        'entry_under_file': 'DATA a/below 1 MD5 x\n',
        'junk': 'FOO bar\n',
        'negative_size': 'DATA a -1\n',
        'dist_slash': 'DIST a/b 1\n',
        'unregistered_sub': 'DATA a 2 MD5 x\n',
        'empty': '',
    }
    for name, text in odd.items():
        for cmd in (('verify',), ('verify', '-k'), ('update', '-H', 'MD5'),
                    ('update', '-H', 'MD5', 'SUB'), ('create', '-p', 'old-ebuild'),
                    ('create', '-p', 'ebuild'), ('create', '-H', 'MD5')):
            t = RealTree()
            try:
                t.write('a', b'aa')
                t.write('sub/c', b'ccc')
                t.write('ig/x', b'x')
                t.write('sub/Manifest', b'DATA c 3 MD5 zz\n')
                t.write('Manifest', text.encode())
                args = [a if a != 'SUB' else t.root + '/sub' for a in cmd]
                if 'SUB' not in cmd:
                    args.append(t.root)
                rc, out = gemato(*args)
                last = ([ln for ln in out.splitlines() if ln.strip()] or [''])[-1]
                genuine_os = last.startswith(('NotADirectoryError', 'OSError', 'IsADirectoryError',
                                              'PermissionError', 'FileNotFoundError'))
                if 'Traceback' in out and genuine_os:
                    agree += 1          # a genuine OS error may escape (the statement says so)
                elif rc not in (0, 1, 2) or 'Traceback' in out:
                    errs.append(f'{name} / {" ".join(cmd)}: rc={rc} {out[-200:]}')
                else:
                    agree += 1
            finally:
                t.close()
    details.append({'odd_texts': sorted(odd), 'commands': 7})
    return agree, details, errs
