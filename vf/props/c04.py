"""C04 - only the OpenPGP-signed content of a signed Manifest is ever used."""
import io

from vf import sym
from vf.engine import Cond, specialise

from gemato.exceptions import (ManifestSyntaxError, ManifestUnsignedData,
                               OpenPGPVerificationFailure)
from gemato.manifest import ManifestFile

PROPERTY = 'C04'
BS = '-----BEGIN PGP SIGNED MESSAGE-----'
BG = '-----BEGIN PGP SIGNATURE-----'
EG = '-----END PGP SIGNATURE-----'

# line classes: (text, kind)
LINES = (
    (BS + '\n', 'begin-signed'),
    (BG + '\n', 'begin-sig'),
    (EG + '\n', 'end-sig'),
    ('-----BEGIN PGP MESSAGE-----\n', 'armor'),
    ('\n', 'blank'),
    ('  \t\n', 'blank'),
    ('Hash: SHA512\n', 'text'),
    ('iQEzBAEBCAAdFiEE=\n', 'text'),
    ('DATA a 0\n', 'entry'),
    ('IGNORE b\n', 'entry'),
    ('- DATA c 1\n', 'escaped-entry'),
    ('- ' + BG + '\n', 'escaped-armor'),
    ('junk\n', 'text'),
    (BS, 'armor'),                       # truncated: no newline
    (EG, 'armor'),
    (BG + ' \n', 'armor'),               # trailing blank: not the exact armor line
    ('-x\n', 'text'),
    ('  DATA d 2\n', 'entry'),
    ('- - DATA e 3\n', 'escaped-text'),  # double escape: unescapes to "- DATA e 3"
)
NL = len(LINES)

# canonical prefixes that drive the machine into each state (state after the prefix)
PREFIXES = (
    ((), 'data-empty'),
    (('DATA p 9\n',), 'data-entries'),
    ((BS + '\n',), 'preamble'),
    ((BS + '\n', 'Hash: SHA512\n', '\n'), 'signed'),
    ((BS + '\n', 'Hash: SHA512\n', '\n', 'DATA s 1\n'), 'signed'),
    ((BS + '\n', '\n', 'DATA s 1\n', BG + '\n'), 'signature'),
    ((BS + '\n', '\n', 'DATA s 1\n', BG + '\n', 'iQEz\n', EG + '\n'), 'post'),
    # a complete signed block whose cleartext holds no entry (a signed empty Manifest)
    ((BS + '\n', '\n', '\n', BG + '\n', 'iQEz\n', EG + '\n'), 'post-empty'),
)
# canonical completions appended after the symbolic lines (or nothing)
SUFFIXES = ((), ('\n', 'DATA t 2\n', BG + '\n', 'abcd\n', EG + '\n'),
            (BG + '\n', 'abcd\n', EG + '\n'), (EG + '\n',), ('\n',))


class Env:
    """records what is handed to signature verification"""

    def __init__(self, fail):
        self.calls, self.fail = [], fail

    def verify_file(self, f):
        self.calls.append(f.read())
        if self.fail:
            raise OpenPGPVerificationFailure('bad signature')
        return 'sigdata'


def is_armor_like(s):
    t = s.rstrip()
    return s.startswith('-----') and t.endswith('-----')


def reference(lines, verify):
    """Written from RFC 4880 par.7 and the statement.  Returns the set of acceptable
    outcomes; an outcome is ('ok', entries, signed_text|None) or ('syntax',) or
    ('unsigned',)."""
    entries = []
    state = 'data'
    text = ''
    outcomes = None
    for ln in lines:
        if state == 'data':
            if ln == BS + '\n':
                if entries:
                    return {('unsigned',)}
                state, text = 'headers', ln
                continue
            if is_armor_like(ln):
                return {('syntax',)}
            if ln.strip():
                if ln.split()[0] not in ('DATA', 'IGNORE'):
                    return {('syntax',)}
                entries.append(tuple(ln.split()))
        elif state == 'headers':
            text += ln
            if not ln.strip():
                state = 'signed'
            elif is_armor_like(ln):
                # the statement is silent: an armor-like line among the armor headers may
                # be refused outright or left to the OpenPGP backend, which sees the
                # identical text; both are accepted
                outcomes = 'either'
        elif state == 'signed':
            text += ln
            if ln == BG + '\n':
                state = 'sig'
                continue
            body = ln[2:] if ln.startswith('- ') else ln
            if is_armor_like(body):
                return _fin({('syntax',)}, outcomes)
            if body.strip():
                if body.split()[0] not in ('DATA', 'IGNORE'):
                    return _fin({('syntax',)}, outcomes)
                entries.append(tuple(body.split()))
        elif state == 'sig':
            text += ln
            if ln == EG + '\n':
                state = 'post'
            elif is_armor_like(ln):
                return _fin({('syntax',)}, outcomes)
        elif state == 'post':
            if is_armor_like(ln):
                # misplaced armor after the signed block: syntax error or unsigned data
                return _fin({('syntax',), ('unsigned',)}, outcomes)
            if ln.strip():
                return _fin({('unsigned',)}, outcomes)
    if state in ('headers', 'signed', 'sig'):
        return _fin({('syntax',)}, outcomes)
    if state == 'post':
        return _fin({('ok', tuple(entries), text if verify else None)}, outcomes)
    return {('ok', tuple(entries), None)}


def _fin(s, outcomes):
    if outcomes == 'either':
        return s | {('syntax',)}
    return s


def k_load(prefix: int, l1: int, l2: int, l3: int, suffix: int, verify: bool, fail: bool):
    with sym.untraced():
        p = sym.pick_index(prefix, len(PREFIXES))
        idx = [sym.pick_index(x, NL + 1) for x in (l1, l2, l3)]
        sx = sym.pick_index(suffix, len(SUFFIXES))
        verify, fail = sym.b(verify), sym.b(fail)
        mid = [LINES[i][0] for i in idx if i != NL]
        # a line without newline can only be the last line of a file
        lines = list(PREFIXES[p][0]) + mid + list(SUFFIXES[sx])
        for i, ln in enumerate(lines[:-1]):
            if not ln.endswith('\n'):
                return True, False
        env = Env(fail)
        m = ManifestFile()
        f = io.StringIO(''.join(lines))
    try:
        m.load(f, verify_openpgp=verify, openpgp_env=env)
        got = ('ok', tuple(tuple(e.to_list()) for e in m.entries),
               env.calls[0] if env.calls else None)
        signed = m.openpgp_signed
    except ManifestSyntaxError:
        got, signed = ('syntax',), m.openpgp_signed
    except ManifestUnsignedData:
        got, signed = ('unsigned',), m.openpgp_signed
    except OpenPGPVerificationFailure:
        got, signed = ('verify-failed',), m.openpgp_signed
    with sym.untraced():
        exp = reference(lines, verify)
        ok_out = next((o for o in exp if o[0] == 'ok'), None)
        if ok_out is not None and ok_out[2] is not None and fail:
            # verification was due and the backend refused: the failure propagates, the
            # Manifest does not report itself signed, verify_file saw exactly the block
            return (got == ('verify-failed',) and not signed
                    and env.calls == [ok_out[2]]), True
        if len(env.calls) > 1:
            return False, True
        if got not in exp:
            return False, ok_out is not None
        if got[0] == 'ok':
            want_signed = got[2] is not None
            return bool(signed) == want_signed, want_signed
        return not signed, False


def k_load_pre(prefix: int, l1: int, l2: int, l3: int, suffix: int, verify: bool,
               fail: bool):
    return (0 <= prefix < len(PREFIXES) and 0 <= l1 <= NL and 0 <= l2 <= NL
            and 0 <= l3 <= NL and 0 <= suffix < len(SUFFIXES))


def conditions(tier):
    cs = []
    full = tier != 'quick'
    for p in range(len(PREFIXES)):
        for sx in range(len(SUFFIXES)):
          for first in (range(NL + 1) if full else (None,)):
            fixed = {'prefix': p, 'suffix': sx}
            if not full:
                fixed['l3'] = NL
            else:
                fixed['l1'] = first     # thorough: 3 free lines, partitioned by the first
            cs.append(Cond(
                f'load_p{p}_s{sx}' + ('' if first is None else f'_l{first}'),
                specialise(k_load, **fixed),
                specialise(k_load_pre, **fixed), timeout=900 if full else 300,
                group='load', twin=(((p in (3, 4) and sx in (1, 2)) or (p == 5 and sx == 3))
                                    and first in (None, NL)),
                descr='real ManifestFile.load on: canonical prefix driving the parser into '
                      f'state "{PREFIXES[p][1]}" + {3 if full else 2} lines chosen '
                      f'symbolically from {NL} line classes (armor lines exact/truncated/'
                      'with trailing blank, other armor, blank, header, base64, entries, '
                      'dash-escaped entry/armor/dash, junk, indented) + canonical suffix '
                      f'#{sx}; a recording OpenPGP environment that accepts or refuses; vs '
                      'an RFC 4880 par.7 reference (entries, exact text handed to '
                      'verification, error class, signed flag)',
                bounds=f'{len(PREFIXES)} pre-states x {NL + 1}^{3 if full else 2} line '
                       f'choices x {len(SUFFIXES)} completions x verify on/off x backend '
                       'verdict'))
    return cs


# validate() compares the real implementation with the property itself
VALIDATION_CHECKS_PROPERTY = True

ASSUMPTIONS = [
    'entry lines are drawn from valid DATA/IGNORE shapes (field-level parsing is C09)',
    'a whitespace-only line ends the armor headers (as gpg, which trims trailing blanks)',
    'where the statement is silent (armor-like line among the armor headers) refusing and '
    'deferring to the backend are both accepted',
]
OUTSIDE = ['what gpg itself takes as the cleartext (binary)', 'CR/LF translation below load()',
           'more than 3 free lines between the canonical prefix and suffix']
STUBS = ['openpgp_env -> recorder returning or raising']


def validate(seed, tier):
    """Ties the reference to the real gpg binary (where installed): a Manifest is really
    clear-signed and then mutated textually (whitespace/TAB separator, added dash-escapes,
    data before/after the block, duplicated or altered signed lines, injected armor headers,
    concatenated messages, CR/LF); whenever the real load() with real verification succeeds,
    its entries must equal the entries of the cleartext gpg authenticated
    (`gpg --decrypt`), and it must report itself signed."""
    import os
    import shutil
    import subprocess
    import tempfile
    import gemato.openpgp as g_pgp
    from gemato.exceptions import GematoException
    if shutil.which('gpg') is None:
        return 0, [{'note': 'no gpg binary'}], []
    agree, details, errs = 0, [], []
    home = tempfile.mkdtemp(prefix='vf-gpg-', dir=os.environ.get('TMPDIR', '/tmp'))
    os.chmod(home, 0o700)
    old = os.environ.get('GNUPGHOME')
    os.environ['GNUPGHOME'] = home

    def gpg(*a, inp=None):
        return subprocess.run(['gpg', '--batch', '--pinentry-mode', 'loopback',
                               '--passphrase', ''] + list(a), input=inp,
                              capture_output=True)
    try:
        gpg('--quick-generate-key', 'vf test <vf@example.org>', 'ed25519', 'sign', 'never')
        body = 'DATA a 0\nIGNORE b\n\n- dashed\nDATA c 1\n'.replace('- dashed\n', '')
        signed = gpg('--clearsign', inp=body.encode()).stdout.decode()
        lines = signed.split('\n')
        sep = lines.index('')           # the header/body separator
        muts = {
            'original': signed,
            'space separator': '\n'.join(lines[:sep] + [' '] + lines[sep + 1:]),
            'tab separator': '\n'.join(lines[:sep] + ['\t'] + lines[sep + 1:]),
            'dash-escaped entry': signed.replace('DATA a 0', '- DATA a 0'),
            'double dash-escape': signed.replace('DATA a 0', '- - DATA a 0'),
            'data before': 'DATA x 0\n' + signed,
            'blank before': '\n\n' + signed,
            'data after': signed + 'DATA y 0\n',
            'blank after': signed + '\n  \n',
            'altered line': signed.replace('DATA c 1', 'DATA c 2'),
            'duplicated line': signed.replace('IGNORE b\n', 'IGNORE b\nIGNORE b\n'),
            'trailing blanks': signed.replace('DATA a 0\n', 'DATA a 0  \n'),
            'comment header': signed.replace('Hash:', 'Comment: x\nHash:'),
            'concatenated': signed + signed,
            'crlf': signed.replace('\n', '\r\n'),
            'truncated': '\n'.join(lines[:-3]) + '\n',
            'entry in headers': signed.replace('Hash:', 'DATA evil 0\nHash:'),
        }
        env = g_pgp.SystemGPGEnvironment()
        for name, text in muts.items():
            m = ManifestFile()
            try:
                m.load(io.StringIO(text), verify_openpgp=True, openpgp_env=env)
                got = [tuple(e.to_list()) for e in m.entries]
                accepted = True
            except GematoException as e:
                accepted, got = False, type(e).__name__
            if not accepted:
                agree += 1
                details.append({'mutation': name, 'load': got})
                continue
            if not m.openpgp_signed and text.lstrip().startswith('-----BEGIN'):
                errs.append(f'{name}: accepted but not reported signed')
            dec = gpg('--decrypt', inp=text.encode())
            auth = [tuple(ln.split()) for ln in dec.stdout.decode().splitlines()
                    if ln.strip()]
            if dec.returncode != 0:
                errs.append(f'{name}: gemato accepted what gpg --decrypt refuses')
            elif auth != got:
                errs.append(f'{name}: entries {got} differ from the cleartext gpg '
                            f'authenticated {auth}')
            else:
                agree += 1
                details.append({'mutation': name, 'load': 'accepted', 'entries': len(got)})
    finally:
        subprocess.run(['gpgconf', '--kill', 'all'], capture_output=True)
        if old is None:
            os.environ.pop('GNUPGHOME', None)
        else:
            os.environ['GNUPGHOME'] = old
        shutil.rmtree(home, ignore_errors=True)
    return agree, details, errs
