"""C10 - update never touches what it does not own."""
import datetime
import posixpath

from vf import sym, tree
from vf.modelfs import ModelFS, mk, digest_for, copy_entry
from vf.scen import make_cond, partitions

from gemato.exceptions import GematoException
from gemato.manifest import ManifestEntryTIMESTAMP
from gemato.recursiveloader import ManifestRecursiveLoader

PROPERTY = 'C10'
MANIFEST_NAMES = ('Manifest', 'Manifest.gz', 'Manifest.bz2', 'Manifest.lzma', 'Manifest.xz')


class Ctx:
    pass


def md5(t):
    return digest_for('MD5', t)


def s_own(v):
    """top Manifest with TIMESTAMP, DIST, IGNORE, a DATA entry (symbolic file a), MISC and
    EBUILD entries for files in a sibling directory oth/ (oth/m symbolic, possibly stale),
    and sub/Manifest with DIST, IGNORE, EBUILD c (symbolic file), AUX files/x"""
    c = Ctx()
    fs = c.fs = ModelFS(written_sizes=[v.size('w1'), v.size('w2')])
    mode = v.choice('mode', 6)
    (a_size, a_dig) = v.filetoken('a_size', 'a_dig')
    (m_size, m_dig) = v.filetoken('m_size', 'm_dig')
    (c_size, c_dig) = v.filetoken('c_size', 'c_dig')
    if mode in (3, 5):
        # the symbolic variable of this mode is the fault position: attributes concrete
        a_size, a_dig, m_size, m_dig, c_size, c_dig = 2, 'A', 5, 'Q', 4, 'C'
    ck = v.choice('c_kind', 3)          # absent, file, directory (-> failing update)
    fs.add_file('a', size=a_size, digest=a_dig)
    fs.add_file('oth/m', size=m_size, digest=m_dig)
    fs.add_file('oth/e', size=2, digest='e')
    fs.add_dir('sub')
    if ck == 1:
        fs.add_file('sub/c', size=c_size, digest=c_dig)
    elif ck == 2:
        fs.add_dir('sub/c')
    fs.add_file('sub/files/x', size=1, digest='x')
    fs.add_file('subx/k', size=1, digest='k')
    fs.add_file('sub.conf', size=1, digest='j')
    fs.add_file('ig/q', size=1, digest='q')
    fs.add_file('sub/ig2/r', size=1, digest='r')
    if v.bool('new_file'):
        fs.add_file('sub/new', size=3, digest='n')
    sub = [mk('DIST', 'd2.tar', 5, MD5=md5('2')), mk('IGNORE', 'ig2'),
           mk('EBUILD', 'c', 4, MD5=md5('C')), mk('AUX', 'x', 1, MD5=md5('x'))]
    fs.add_manifest('sub/Manifest', sub, size=6, digest='S')
    top = [ManifestEntryTIMESTAMP(datetime.datetime(2020, 1, 2, 3, 4, 5)),
           mk('DIST', 'd1.tar', 9, MD5=md5('1')), mk('IGNORE', 'ig'),
           mk('IGNORE', 'gone'), mk('IGNORE', 'sub/gone2'),
           mk('DATA', 'a', 2, MD5=md5('A')),
           # a compatible duplicate with a disjoint hash set (legal; lookups merge them)
           mk('DATA', 'a', 2, SHA1=digest_for('SHA1', 'A')),
           mk('MISC', 'oth/m', 3, MD5=md5('M')), mk('EBUILD', 'oth/e', 2, MD5=md5('e')),
           mk('DATA', 'subx/k', 1, MD5=md5('k')), mk('DATA', 'sub.conf', 1, MD5=md5('j')),
           mk('MANIFEST', 'sub/Manifest', 6, MD5=md5('S'))]
    fs.add_manifest('Manifest', top)
    c.mode = mode                       # 0 verify+lookups, 1 update w/o save, 2 update+save,
    #                                     3 update hit by an I/O error, then discarded
    #                                     4 verify + lookups, then update of sub + save on
    #                                       the same loader
    #                                     5 update + save where the k-th dump of the save
    #                                       step fails (disk full)
    c.fault_at = v.int('fault_at', 0, 70)
    c.dump_fault = v.int('dump_fault', 0, 3)
    if mode == 5:
        # stale entries, so that both Manifests are rewritten
        fs.node('a').digest = 'V'
        if ck == 1:
            fs.node('sub/c').digest = 'W'
    c.xdev = v.bool('sub_other_dev')
    c.upath = ('', 'sub')[v.choice('up', 2)]
    c.force = v.bool('force')
    return c


def snapshot(fs):
    """(manifest path -> copies of entries), (data path -> node identity and attributes)"""
    mans, data = {}, {}

    def walk(node, rel):
        for name, ch in node.children.items():
            r = posixpath.join(rel, name)
            if ch.kind == 'dir':
                walk(ch, r)
            elif ch.kind == 'file' and ch.is_manifest and name.startswith('Manifest'):
                mans[r] = [copy_entry(e) for e in ch.entries or []]
            else:
                data[r] = (ch, ch.kind, ch.size, ch.digest, ch.mtime)
    walk(fs.root, '')
    return mans, data


def run_ops(c):
    fs = tree.world(c)
    c.before = snapshot(c.fs)
    c.log_before_save = None
    out = 'done'
    if c.mode == 3 and c.xdev:
        c.fs.node('sub').dev = 2            # one-file-system update crossing a boundary
    with fs.installed():
        try:
            m = ManifestRecursiveLoader(posixpath.join(fs.root_path, 'Manifest'),
                                        verify_openpgp=False, hashes=['MD5'],
                                        allow_xdev=not (c.mode == 3 and c.xdev))
            if c.mode == 3 and not c.xdev:
                c.fs.fault_at = c.fs.ncalls + c.fault_at
            if c.mode in (0, 4):
                try:
                    m.assert_directory_verifies('' if c.mode == 4 else c.upath)
                except GematoException:
                    pass
                m.find_path_entry('sub/c')
                m.find_dist_entry('d2.tar', 'sub')
                try:
                    m.assert_path_verifies('a')
                except GematoException:
                    pass
                m.verify_path('oth/m')
                m.find_timestamp()
                if c.mode == 4:
                    c.upath = 'sub'
                    m.update_entries_for_directory('sub')
                    c.log_before_save = [*c.fs.log]
                    m.save_manifests(force=c.force)
                    out = 'saved'
            else:
                m.update_entries_for_directory(c.upath)
                c.fs.fault_at = None
                c.log_before_save = [*c.fs.log]
                if c.mode == 2:
                    m.save_manifests(force=c.force)
                    out = 'saved'
                if c.mode == 5:
                    c.fs.dump_fault_at = c.dump_fault
                    m.save_manifests(force=True)
                    out = 'saved'
        except (GematoException, OSError) as e:
            out = 'error:' + type(e).__name__
            c.fs.fault_at = None
            if c.log_before_save is None:
                c.log_before_save = [*c.fs.log]
    return out


def same_val(x, y):
    return x is y or sym.eq(x, y)


def same_entry(e1, e2):
    if e1.tag != e2.tag:
        return False
    if e1.tag == 'TIMESTAMP':
        return e1.ts == e2.ts
    if e1.path != e2.path:
        return False
    if e1.tag == 'IGNORE':
        return True
    if not same_val(e1.size, e2.size) or sorted(e1.checksums) != sorted(e2.checksums):
        return False
    return all(same_val(e1.checksums[h], e2.checksums[h]) for h in e1.checksums)


def same_list(l1, l2):
    return len(l1) == len(l2) and all(same_entry(a, b) for a, b in zip(l1, l2))


def judge_ops(c, out):
    fs = c.fs
    mans0, data0 = c.before
    mans1, data1 = snapshot(fs)
    interesting = out == 'saved'
    # data files: same nodes, same attributes, nothing created or deleted
    if sorted(data0) != sorted(data1):
        return False, interesting
    for p in data0:
        n0, n1 = data0[p], data1[p]
        if n0[0] is not n1[0] or n0[1] != n1[1]:
            return False, interesting
        if not (same_val(n0[2], n1[2]) and same_val(n0[3], n1[3])
                and same_val(n0[4], n1[4])):
            return False, interesting
    # nothing is written before the save step / by verification and lookups / by an update
    # that fails or is discarded
    if c.log_before_save:
        return False, interesting
    if c.mode == 5 and c.fs.dump_fault_fired is not None:
        # the save step failed half-way: Manifest files may be damaged (crash atomicity is
        # not claimed), but still nothing else was created, replaced or removed
        for op in fs.log:
            for pth in op[1:]:
                if isinstance(pth, str) and pth.startswith('/') and \
                        not posixpath.basename(pth).startswith('Manifest'):
                    return False, True
        return out != 'saved', True
    if out != 'saved':
        if fs.log:
            return False, interesting
        return (sorted(mans0) == sorted(mans1)
                and all(same_list(mans0[p], mans1[p]) for p in mans0)), interesting
    # the save step writes Manifest files only
    # (a scratch file that did not exist before and is gone afterwards - renamed onto a
    # Manifest or removed - is not held against an implementation; one that is left behind,
    # or any pre-existing file that is written to, is caught here or by the snapshot above)
    for op in fs.log:
        for pth in op[1:]:
            if not (isinstance(pth, str) and pth.startswith('/')):
                continue
            if posixpath.basename(pth).startswith('Manifest'):
                continue
            rel = posixpath.relpath(pth, '/r')
            if rel in data0 or rel in data1:
                return False, interesting
    for p in mans0:
        if p not in mans1:
            return False, interesting
        old, new = mans0[p], mans1[p]
        d = posixpath.dirname(p)
        # DIST / IGNORE / TIMESTAMP preserved as a multiset (order may change with sort)
        for tag in ('DIST', 'IGNORE', 'TIMESTAMP'):
            o = [e for e in old if e.tag == tag]
            n = [e for e in new if e.tag == tag]
            if len(o) != len(n) or not all(any(same_entry(x, y) for y in n) for x in o):
                return False, interesting
        # entry type of surviving file entries preserved
        for e in old:
            if e.tag in ('DIST', 'IGNORE', 'TIMESTAMP'):
                continue
            for e2 in new:
                if e2.tag not in ('DIST', 'IGNORE', 'TIMESTAMP') and e2.path == e.path \
                        and e2.tag != e.tag:
                    return False, interesting
        # entries for paths outside the updated directory are untouched, apart from the
        # MANIFEST entries on the chain above it
        for e in old:
            if e.tag in ('DIST', 'IGNORE', 'TIMESTAMP'):
                continue
            full = posixpath.join(d, e.path)
            if tree.cw_prefix(full, c.upath):
                continue
            if e.tag == 'MANIFEST' and tree.cw_prefix(c.upath, posixpath.dirname(full)):
                continue
            if not any(same_entry(e, e2) for e2 in new):
                return False, interesting
    return True, interesting


def conditions(tier):
    cs = []
    parts = [('mode', range(6)), ('up', range(2)), ('c_kind', range(3)),
             ('force', (False, True))]
    for fx in partitions(parts):
        if fx['mode'] not in (2, 4) and fx['force']:
            continue
        if fx['mode'] == 5 and (fx['up'] == 1 or fx['c_kind'] == 2):
            continue
        if fx['mode'] == 4 and fx['up'] == 0:
            continue
        nm = 'own_' + '_'.join(f'{k.replace("_", "")[:4]}{int(x)}' for k, x in fx.items())
        cs.append(make_cond(
            nm, s_own, run_ops, judge_ops, fx, timeout=400, group='M-own', real=False,
            twin=(fx['mode'] in (2, 4) and fx['c_kind'] == 1),
            descr='sequence of loader operations on the model with a write log: (0) verify '
                  '+ lookups, (1) update without save, (2) update + save, (3) update hit by an '
                  'OSError at a symbolic call position or by a device boundary, then '
                  'discarded, (4) verify + lookups then update of sub + save on the same '
                  'loader, (5) update + forced save whose k-th dump fails with ENOSPC: still '
                  'no file other than a Manifest is created, replaced or removed; sub/c '
                  'absent, a file, or a directory (failing update)',
            bounds='S-own: top Manifest with TIMESTAMP/DIST/IGNORE/DATA/MISC/EBUILD/MANIFEST '
                   'entries, sub/Manifest with DIST/IGNORE/EBUILD/AUX; files a, oth/m, sub/c '
                   'with symbolic size/digest (stale or not); optional new file; update of '
                   '"" or "sub"; force symbolic'))
    return cs


# validate() compares the real implementation with the property itself
VALIDATION_CHECKS_PROPERTY = True

ASSUMPTIONS = [
    'the only ways to mutate the model are the seams gemato uses for writing '
    '(open_potentially_compressed_path(.., "w"), os.unlink); every call is logged',
    'Manifest serialisation replaced by entry snapshots',
]
OUTSIDE = ['crash atomicity of the save itself', 'TIMESTAMP refresh by the CLI (C11)',
           'operation sequences longer than init+verify/lookups or update(+save)']
STUBS = ['ModelFS seams', 'ManifestFile.load/dump wrappers']


def validate(seed, tier):
    """real filesystem: verify, update of a sub-directory and of the whole tree never touch a
    non-Manifest file (bytes and st_mtime_ns) and keep DIST/IGNORE/TIMESTAMP lines"""
    from vf.realcheck import RealTree, gemato
    agree, details, errs = 0, [], []
    t = RealTree()
    try:
        for n, d in (('a', b'aa'), ('sub/c', b'ccc'), ('subx/k', b'k'), ('sub.conf', b'j'),
                     ('ig/q', b'q')):
            t.write(n, d, mtime=1500000000)
        t.write('sub/Manifest', b'DIST d2.tar 5 MD5 00\nIGNORE ig2\n')
        t.write('Manifest', b'TIMESTAMP 2020-01-02T03:04:05Z\nDIST d1.tar 9 MD5 11\n'
                            b'IGNORE ig\nIGNORE gone\nMANIFEST sub/Manifest 0\n')
        before = t.snapshot(False)
        for step in (('verify', t.root), ('update', '-H', 'MD5', t.root + '/sub'),
                     ('verify', t.root), ('update', '-H', 'MD5', t.root), ('verify', t.root)):
            rc, out = gemato(*step)
            if t.snapshot(False) != before:
                errs.append(f'{step[0]} modified a non-Manifest file')
            else:
                agree += 1
            if step[-1].endswith('/sub') and 'TIMESTAMP 2020-01-02T03:04:05Z' not in \
                    t.read('Manifest').decode().splitlines():
                errs.append('sub-directory update changed the TIMESTAMP')
        top = t.read('Manifest').decode()
        sub = t.read('sub/Manifest').decode()
        # (a whole-tree `gemato update` refreshes an existing TIMESTAMP by design)
        if len([ln for ln in top.splitlines() if ln.startswith('TIMESTAMP ')]) != 1:
            errs.append('top Manifest does not carry exactly one TIMESTAMP')
        for line in ('DIST d1.tar 9 MD5 11', 'IGNORE ig', 'IGNORE gone'):
            if line not in top.splitlines():
                errs.append(f'top Manifest lost line {line!r}')
        for line in ('DIST d2.tar 5 MD5 00', 'IGNORE ig2'):
            if line not in sub.splitlines():
                errs.append(f'sub Manifest lost line {line!r}')
        if rc != 0:
            errs.append('tree does not verify after the updates: ' + out[-200:])
        details.append({'steps': 5})
    finally:
        t.close()
    return agree, details, errs
