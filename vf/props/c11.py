"""C11 - incremental update equals full update."""
import calendar
import datetime

from vf import sym
from vf import venv_verify as ve
from vf.engine import Cond, specialise
from vf.props.c05 import Swap

import gemato.cli as g_cli
import gemato.verify as gv
from gemato.manifest import new_manifest_entry, ManifestEntryTIMESTAMP

PROPERTY = 'C11'


# ---------------------------------------------------------------------------------------
# K1: last_mtime handed to the loader is the UTC epoch of the TIMESTAMP in every timezone

class LocalNaive(datetime.datetime):
    """A datetime whose .timestamp() follows the documented contract: a naive value is
    taken as *local* time (epoch of the wall-clock reading minus the zone's UTC offset),
    an aware value is exact.  The local zone's offset is a symbolic number of seconds."""
    offset = 0

    def timestamp(self):
        if self.tzinfo is None:
            return float(calendar.timegm(self.timetuple()) - LocalNaive.offset)
        return datetime.datetime.timestamp(self)


TS_VALUES = ((2020, 1, 1, 0, 0, 0), (2017, 11, 2, 23, 59, 59), (1999, 12, 31, 12, 0, 0))


class _Loader:
    """stands for ManifestRecursiveLoader: records what UpdateCommand does with it"""
    inst = None

    def __init__(self, tlm, **kw):
        _Loader.inst = self
        self.hashes = ['MD5']
        self.events = []
        self.update_kwargs = None
        self.ts_entry = _Loader.ts_entry
        self.set_ts = []

    def find_timestamp(self):
        self.events.append('find_timestamp')
        return self.ts_entry

    def update_entries_for_directory(self, relpath='', **kw):
        self.events.append('update')
        self.update_kwargs = kw

    def set_timestamp(self, ts):
        self.events.append('set_timestamp')
        self.set_ts.append(ts)

    def save_manifests(self, **kw):
        self.events.append('save')


class _Log:
    @staticmethod
    def error(*a):
        pass
    info = debug = warning = error


def _cmd(incremental, timestamp):
    cmd = g_cli.UpdateCommand()
    cmd.paths = ['/x']
    cmd.incremental = incremental
    cmd.timestamp = timestamp
    cmd.init_kwargs = {}
    cmd.save_kwargs = {}
    return cmd


class _TimeModel:
    """the C library's view of the local zone (time module): a standard offset, an optional
    daylight-saving offset, and whether DST is in force at the instant converted"""

    def __init__(self, std_off, dst_extra, is_dst):
        self.timezone = -std_off
        self.altzone = -(std_off + dst_extra)
        self.daylight = 1 if dst_extra != 0 else 0
        self._off = std_off + (dst_extra if is_dst else 0)
        self.tzname = ('STD', 'DST')

    def mktime(self, tt):
        return float(calendar.timegm(tuple(tt)[:6] + (0, 0, 0)) - self._off)

    def time(self):
        return 1.7e9


def k_timezone(offset: int, tsi: int, dst: bool = False, is_dst: bool = False):
    tsv = TS_VALUES[sym.pick_index(tsi, len(TS_VALUES))]
    dst_extra = 3600 if dst else 0
    LocalNaive.offset = offset + (dst_extra if (dst and is_dst) else 0)
    ts = LocalNaive(*tsv)
    _Loader.ts_entry = ManifestEntryTIMESTAMP(ts)
    with Swap(g_cli, ManifestRecursiveLoader=_Loader, logging=_Log,
              time=_TimeModel(offset, dst_extra, dst and is_dst),
              find_top_level_manifest=lambda p: '/x/Manifest'):
        rc = _cmd(True, False)()
    utc_epoch = calendar.timegm(tsv + (0, 0, 0))
    got = _Loader.inst.update_kwargs.get('last_mtime')
    return rc == 0 and got == utc_epoch, offset != 0


def k_timezone_pre(offset: int, tsi: int, dst: bool = False, is_dst: bool = False):
    return -14 * 3600 <= offset <= 14 * 3600 and 0 <= tsi < len(TS_VALUES)


def k_timezone_real(args):
    """stage 2: the real C library under a real TZ setting with the same standard offset
    and, if the counterexample has them, DST rules that put the TIMESTAMP inside or outside
    the DST period (all TIMESTAMP values lie in Nov-Jan: northern rules = standard time,
    southern rules = DST in force)"""
    import os
    import time
    off = args['offset']
    tsv = TS_VALUES[args['tsi']]
    sign = '-' if off >= 0 else '+'          # POSIX TZ: "XXX-5" is UTC+5
    a = abs(off)
    tz = 'VFX%s%02d:%02d:%02d' % (sign, a // 3600, a % 3600 // 60, a % 60)
    if args.get('dst'):
        tz += 'VFD,M10.1.0,M3.3.0' if args.get('is_dst') else 'VFD,M3.5.0,M10.5.0'
    old = os.environ.get('TZ')
    os.environ['TZ'] = tz
    time.tzset()
    try:
        _Loader.ts_entry = ManifestEntryTIMESTAMP(datetime.datetime(*tsv))
        with Swap(g_cli, ManifestRecursiveLoader=_Loader, logging=_Log,
                  find_top_level_manifest=lambda p: '/x/Manifest'):
            _cmd(True, False)()
        got = _Loader.inst.update_kwargs.get('last_mtime')
        return {'reproduced': got != calendar.timegm(tsv + (0, 0, 0)),
                'TZ': os.environ['TZ'], 'last_mtime': got}
    finally:
        if old is None:
            del os.environ['TZ']
        else:
            os.environ['TZ'] = old
        time.tzset()


# ---------------------------------------------------------------------------------------
# K2: the skip rule - under the statement's hypothesis the incremental result equals the
# full one; a size change re-hashes regardless of mtime

from vf.halfsec import HalfSec  # noqa: E402


def k_skip_rule(st_size: int, mtime: int, last_mtime: int, f_dig: int, e_size: int,
                e_dig: int, weird_fs: bool, half: bool = False):
    # st_mtime has sub-second resolution, the TIMESTAMP whole seconds
    if half:
        mtime = HalfSec(2 * mtime + 1)

    def once(lm):
        e = new_manifest_entry('DATA', 'f', e_size, {'MD5': e_dig})
        f = ve.OneFile('regular', st_size=0 if weird_fs else st_size, mtime=mtime,
                       true_size=st_size, digests={'md5': f_dig})
        with ve.Installed(f):
            changed = gv.update_entry_for_path('/r/f', e, hashes=['MD5'], last_mtime=lm)
        return changed, e, f
    c_full, e_full, _ = once(None)
    c_inc, e_inc, f_inc = once(last_mtime)
    same = (e_full.size == e_inc.size and e_full.checksums == e_inc.checksums
            and c_full == c_inc)
    # a size change is never skipped
    if st_size != e_size and not f_inc.hashed:
        return False, True
    return same, (e_dig != f_dig)


def k_skip_pre(st_size: int, mtime: int, last_mtime: int, f_dig: int, e_size: int,
               e_dig: int, weird_fs: bool, half: bool = False):
    # hypothesis of the statement: a file whose content differs from what the Manifest
    # records has been modified after the previous TIMESTAMP
    changed = (st_size != e_size) or (f_dig != e_dig)
    if half:
        mtime = HalfSec(2 * mtime + 1)
    return (st_size >= 0 and e_size >= 0 and (st_size >= 1 or f_dig == 0)
            and (not changed or mtime > last_mtime))


def k_size_change_pre(st_size: int, mtime: int, last_mtime: int, f_dig: int, e_size: int,
                      e_dig: int, weird_fs: bool, half: bool = False):
    # no hypothesis about mtimes here: the size differs from the recorded one
    return st_size >= 0 and e_size >= 0 and st_size != e_size and (st_size >= 1 or f_dig == 0)


# ---------------------------------------------------------------------------------------
# K3: the TIMESTAMP written is the instant taken before scanning started

class _Clock:
    """datetime module stand-in: utcnow() returns non-decreasing instants and logs when it
    was asked"""

    def __init__(self, step1, step2):
        self.t = [datetime.datetime(2021, 1, 1, 0, 0, 0),
                  datetime.datetime(2021, 1, 1, 0, 0, 0) + datetime.timedelta(seconds=step1),
                  datetime.datetime(2021, 1, 1, 0, 0, 0)
                  + datetime.timedelta(seconds=step1 + step2)]
        self.n = 0
        clock = self

        class _DT:
            @staticmethod
            def utcnow():
                v = clock.t[min(clock.n, 2)]
                clock.n += 1
                if _Loader.inst is not None:
                    _Loader.inst.events.append('utcnow')
                clock.issued.append(v)
                return v

            @staticmethod
            def now(tz=None):
                return _DT.utcnow()
        self.datetime = _DT
        self.issued = []
        self.timezone = datetime.timezone
        self.UTC = datetime.timezone.utc


def k_clock(mode: int, step1: int, step2: int):
    """mode 0: update -t, 1: update with existing TIMESTAMP, 2: create -t"""
    mode = sym.pick_index(mode, 3)
    clock = _Clock(step1, step2)
    old = ManifestEntryTIMESTAMP(datetime.datetime(2019, 5, 5, 5, 5, 5))
    _Loader.ts_entry = old if mode == 1 else None
    _Loader.inst = None
    with Swap(g_cli, ManifestRecursiveLoader=_Loader, logging=_Log, datetime=clock,
              find_top_level_manifest=lambda p: '/x/Manifest'):
        if mode == 2:
            cmd = g_cli.CreateCommand()
            cmd.paths = ['/x']
            cmd.timestamp = True
            cmd.init_kwargs = {}
            cmd.save_kwargs = {}
            rc = cmd()
        else:
            rc = _cmd(False, mode == 0)()
    ld = _Loader.inst
    ev = ld.events
    if rc != 0 or 'update' not in ev or 'utcnow' not in ev:
        return False, True
    start = clock.issued[ev[:ev.index('update')].count('utcnow') - 1] \
        if ev[:ev.index('update')].count('utcnow') else None
    written = ld.set_ts[0] if ld.set_ts else (old.ts if mode == 1 else None)
    # the instant was taken before the scan started, and it is the one written
    return (start is not None and written == start
            and ev.index('save') > ev.index('update')), step1 > 0


def k_clock_pre(mode: int, step1: int, step2: int):
    return 0 <= mode <= 2 and 0 <= step1 <= 100000 and 0 <= step2 <= 100000


def conditions(tier):
    cs = []
    for tsi in range(len(TS_VALUES)):
        c = Cond(f'timezone_{tsi}', specialise(k_timezone, tsi=tsi),
                 specialise(k_timezone_pre, tsi=tsi), timeout=120, group='timezone',
                 descr='real UpdateCommand.__call__ with --incremental: the last_mtime handed '
                       'to the loader equals the UTC epoch of the TIMESTAMP whatever the '
                       'local UTC offset; datetime.timestamp() and the time module (mktime, '
                       'timezone, altzone, daylight) modelled by their documented contracts',
                 bounds='standard offset any whole second in [-14h, +14h], zone with or '
                        'without DST rules, DST in force or not at the TIMESTAMP; 3 TIMESTAMP '
                        'values')
        c.replay_real = (lambda a, _t=tsi: k_timezone_real({**a, 'tsi': _t}))
        cs.append(c)
    for w, h in ((False, False), (True, False), (False, True)):
        cs.append(Cond(f'skip_rule_w{int(w)}' + ('_subsecond' if h else ''),
                       specialise(k_skip_rule, weird_fs=w, half=h),
                       specialise(k_skip_pre, weird_fs=w, half=h), timeout=300, group='skip',
                       descr='real update_entry_for_path with and without last_mtime on the '
                             'same symbolic file under the hypothesis "changed content => '
                             'mtime > last_mtime": identical resulting entry and change '
                             'flag; a size change is re-hashed regardless of mtime',
                       bounds='sizes, mtimes, last_mtime any int; digests any int token (only '
                              'equality matters); '
                              + ('st_size reported as 0' if w else 'st_size = true size')
                              + ('; mtime = whole seconds + 0.5' if h else '; whole-second mtime')))
    for w in (False, True):
        cs.append(Cond(f'size_change_w{int(w)}', specialise(k_skip_rule, weird_fs=w, half=False),
                       specialise(k_size_change_pre, weird_fs=w, half=False), timeout=300,
                       group='skip',
                       descr='a file whose size differs from the recorded size is re-hashed '
                             'and refreshed whatever its mtime (older, equal, newer than '
                             'last_mtime)', bounds='any ints; no mtime hypothesis'))
    cs.append(Cond('clock', k_clock, k_clock_pre, timeout=120, group='clock',
                   descr='UpdateCommand (-t / existing TIMESTAMP) and CreateCommand (-t) with '
                         'a clock stub issuing non-decreasing instants: the TIMESTAMP written '
                         'is the instant taken before update_entries_for_directory was '
                         'entered; save happens after the scan',
                   bounds='clock steps 0..100000 s between calls'))
    return cs


# validate() compares the real implementation with the property itself
VALIDATION_CHECKS_PROPERTY = True

ASSUMPTIONS = [
    'datetime.timestamp(): naive values are interpreted as local time, aware values exactly '
    '(Python documentation); the local zone is a fixed UTC offset during one run',
    'hypothesis of the statement for the skip rule: changed content implies mtime > previous '
    'TIMESTAMP',
]
OUTSIDE = ['filesystems whose mtime granularity is coarser than the TIMESTAMP second',
           'DST tables (any whole-second offset is covered, a superset)',
           'whole-tree replicas (the per-file rule is the only place last_mtime is used; '
           'tree-level update is C03)']
STUBS = ['gemato.cli.ManifestRecursiveLoader -> recorder', 'gemato.cli.datetime -> clock stub',
         'datetime subclass modelling timestamp() with a symbolic offset']


def validate(seed, tier):
    """real filesystem, real TZ: `update --incremental` equals a full update for files
    modified 1 h after the TIMESTAMP with unchanged size, under UTC, UTC+9 and UTC-8"""
    import calendar
    from vf.realcheck import RealTree, gemato
    agree, details, errs = 0, [], []
    ts = calendar.timegm((2020, 1, 2, 3, 4, 5))
    for tz in ('UTC', 'Asia/Tokyo', 'America/Los_Angeles', 'VFX+08:00:00', 'VFX-09:30:00'):
        res = []
        for inc in (True, False):
            t = RealTree()
            try:
                t.write('a', b'xx', mtime=ts + 3600)       # rewritten after the TIMESTAMP
                t.write('b', b'yyy', mtime=ts - 3600)      # untouched
                t.write('Manifest', b'TIMESTAMP 2020-01-02T03:04:05Z\n'
                        b'DATA a 2 MD5 00000000000000000000000000000000\n'
                        b'DATA b 3 MD5 f0a9c0e0ce1d2b1c2f0cc40cbe2b6a5e\n')
                args = ['update', '-H', 'MD5'] + (['-i'] if inc else []) + [t.root]
                rc, out = gemato(*args, env={'TZ': tz})
                res.append([ln for ln in t.read('Manifest').decode().splitlines()
                            if ln.startswith('DATA a')])
            finally:
                t.close()
        if res[0] == res[1] and '0000000000' not in res[0][0]:
            agree += 1
        else:
            errs.append(f'TZ={tz}: incremental {res[0]} vs full {res[1]}')
    details.append({'zones': 5})
    return agree, details, errs
