"""C19 - profiles place Manifests and type entries as documented; output verifies."""
import posixpath

from vf import sym, tree
from vf.engine import Cond, specialise
from vf.modelfs import ModelFS, ROOT, mk, digest_for
from vf.scen import make_cond, partitions

from gemato.profile import (DefaultProfile, EbuildRepositoryProfile,
                            BackwardsCompatEbuildRepositoryProfile, get_profile_by_name)
from gemato.recursiveloader import ManifestRecursiveLoader

PROPERTY = 'C19'
PROFILES = ('default', 'ebuild', 'old-ebuild')
STD_TOP = ('eclass', 'licenses', 'metadata', 'profiles')
STD_META = ('dtd', 'glsa', 'md5-cache', 'news', 'xml-schema')
MNAMES = ('Manifest', 'Manifest.gz', 'Manifest.bz2', 'Manifest.lzma', 'Manifest.xz')


# ---- the policy, transcribed from the statement and the profile documentation ---------------
def policy_want_manifest(profile, relpath, dirnames, filenames):
    if profile == 'default':
        return False
    if 'metadata.xml' in filenames:
        return True
    comps = relpath.split('/')
    if len(comps) == 1:
        return len(dirnames) > 0 or relpath in STD_TOP
    if len(comps) == 2:
        return (any(f.endswith('.ebuild') for f in filenames)
                or (comps[0] == 'metadata' and comps[1] in STD_META))
    if len(comps) == 3:
        return comps[0] == 'metadata' and comps[1] == 'md5-cache'
    return False


def policy_entry_type(profile, path):
    if profile != 'old-ebuild':
        return 'DATA'
    comps = path.split('/')
    if len(comps) == 3 and path.endswith('.ebuild'):
        return 'EBUILD'
    if len(comps) == 3 and comps[2] == 'metadata.xml':
        return 'MISC'
    if len(comps) >= 3 and comps[2] == 'files':
        return 'AUX'
    return 'DATA'


def policy_ignores(profile, relpath):
    if profile == 'default':
        return ()
    if relpath == '':
        return ('distfiles', 'local', 'lost+found', 'packages')
    if relpath == 'metadata':
        return ('timestamp', 'timestamp.chk', 'timestamp.commit', 'timestamp.x')
    if relpath in ('metadata/dtd', 'metadata/glsa', 'metadata/news', 'metadata/xml-schema'):
        return ('timestamp.chk', 'timestamp.commit')
    return ()


# ---- K: policy functions on structured symbolic paths ----------------------------------------
C1 = ('', 'cat', 'eclass', 'licenses', 'metadata', 'profiles', 'eclas', 'metadata2')
C2 = ('pkg', 'dtd', 'glsa', 'md5-cache', 'news', 'xml-schema', 'glsa2', 'md5-cach')
C3 = ('cat', 'files', 'x-1.ebuild', 'metadata.xml')
FNAMES = ('README', 'metadata.xml', 'x-1.ebuild', 'x.ebuildx', 'metadata.xm')


def k_want_manifest(prof: int, depth: int, i1: int, i2: int, i3: int, free: str,
                    ndirs: int, f1: int, f2: int, usefree: bool):
    prof = sym.pick_index(prof, 3)
    depth = sym.pick_index(depth, 4) + 1
    # only the components that exist at this depth are chosen (no forks on unused ones)
    comps = [C1[sym.pick_index(i1, len(C1))]]
    if depth >= 2:
        comps.append(C2[sym.pick_index(i2, len(C2))])
    if depth >= 3:
        comps.append(C3[sym.pick_index(i3, len(C3))])
    if depth >= 4:
        comps.append('deep')
    if comps[0] == '' and depth > 1:
        return True, False
    if usefree:
        comps[-1] = 'z' + free          # a component no policy literal matches by accident
    relpath = '/'.join(comps)
    dirnames = ['d%d' % i for i in range(sym.pick_index(ndirs, 2))]
    filenames = ['Makefile', FNAMES[sym.pick_index(f1, len(FNAMES))]]
    p = get_profile_by_name(PROFILES[prof])
    got = p.want_manifest_in_directory(relpath, list(dirnames), list(filenames))
    exp = policy_want_manifest(PROFILES[prof], relpath, dirnames, filenames)
    return bool(got) == exp, exp


def k_want_pre(prof: int, depth: int, i1: int, i2: int, i3: int, free: str, ndirs: int,
               f1: int, f2: int, usefree: bool):
    return len(free) == 1 and free != '/' and 0 <= ndirs <= 1


PATHS3 = ('cat/pkg/x-1.ebuild', 'cat/pkg/metadata.xml', 'cat/pkg/files/p.patch',
          'cat/pkg/files/sub/q', 'cat/pkg/README', 'eclass/e.eclass', 'x.ebuild',
          'cat/x.ebuild', 'a/b/c/x.ebuild', 'cat/pkg/files', 'a/b/filesx/y',
          'metadata/md5-cache/cat/x-1', 'cat/pkg/sub/metadata.xml')


def k_entry_type(prof: int, i: int, free: str, where: int):
    prof = sym.pick_index(prof, 3)
    path = PATHS3[sym.pick_index(i, len(PATHS3))]
    w = sym.pick_index(where, 3)
    if w == 1:
        path = path + free              # free code point at the end of the last component
    elif w == 2:
        path = free + path              # ... at the start of the first component
    got = get_profile_by_name(PROFILES[prof]).get_entry_type_for_path(path)
    return got == policy_entry_type(PROFILES[prof], path), got != 'DATA'


def k_entry_type_pre(prof: int, i: int, free: str, where: int):
    return len(free) == 1 and free != '/'


IGPATHS = ('', 'metadata', 'metadata/dtd', 'metadata/glsa', 'metadata/news',
           'metadata/xml-schema', 'metadata/md5-cache', 'cat', 'cat/pkg', 'metadata/glsa2',
           'profiles')


def k_ignore_paths(prof: int, i: int):
    prof = sym.pick_index(prof, 3)
    rp = IGPATHS[sym.pick_index(i, len(IGPATHS))]
    got = tuple(get_profile_by_name(PROFILES[prof]).get_ignore_paths_for_new_manifest(rp))
    return got == policy_ignores(PROFILES[prof], rp), bool(got)


class _L:
    pass


def k_loader_options(prof: int, h: bool, s: int, w: int, f: bool):
    prof = sym.pick_index(prof, 3)
    ld = _L()
    ld.hashes = ['MD5'] if h else None
    ld.sort = (None, False, True)[sym.pick_index(s, 3)]
    ld.compress_watermark = (None, 0, 5000)[sym.pick_index(w, 3)]
    ld.compress_format = 'xz' if f else None
    before = (ld.hashes, ld.sort, ld.compress_watermark, ld.compress_format)
    get_profile_by_name(PROFILES[prof]).set_loader_options(ld)
    after = (ld.hashes, ld.sort, ld.compress_watermark, ld.compress_format)
    if PROFILES[prof] == 'default':
        return after == before, False
    exp = (before[0] if before[0] is not None else ['BLAKE2B', 'SHA512'],
           before[1] if before[1] is not None else True,
           before[2] if before[2] is not None else 128,
           before[3] if before[3] is not None else 'gz')
    return after == exp, True


# ---- M: create on a miniature repository --------------------------------------------------------
class Ctx:
    pass


def make_repo(lite):
    def s_repo(v):
        return _s_repo(v, lite)
    return s_repo


def _s_repo(v, lite):
    c = Ctx()
    c.lite = lite
    fs = c.fs = ModelFS(walk_fuel=200)
    c.profile = PROFILES[v.choice('profile', 3)]
    ebuild = v.bool('has_ebuild')
    mxml = v.bool('has_metadata_xml')
    files = v.bool('has_files')
    if ebuild:
        fs.add_file('cat/pkg/x-1.ebuild', size=3, digest='e')
    if mxml:
        fs.add_file('cat/pkg/metadata.xml', size=2, digest='m')
    if files:
        fs.add_file('cat/pkg/files/p.patch', size=1, digest='p')
    if not (ebuild or mxml or files):
        fs.add_file('cat/pkg/README', size=1, digest='r')
    if c.lite or v.bool('has_eclass'):
        fs.add_file('eclass/e.eclass', size=4, digest='c')
    if v.bool('has_glsa'):
        fs.add_file('metadata/glsa/g.xml', size=5, digest='g')
        fs.add_file('metadata/glsa/timestamp.chk', size=1, digest='t')
    if v.bool('has_cache'):
        fs.add_file('metadata/md5-cache/cat/x-1', size=6, digest='h')
    if c.lite or v.bool('has_meta_ts'):
        fs.add_file('metadata/timestamp', size=1, digest='T')
    if c.lite or v.bool('has_distfiles'):
        fs.add_file('distfiles/d.tar', size=9, digest='d')
    fs.add_file('profiles/categories', size=4, digest='k')
    fs.add_file('header.txt', size=2, digest='H')
    # uncompressed sizes reported for two Manifests are symbolic (watermark 128)
    c.u_pkg, c.u_meta = v.size('u_pkg'), v.size('u_meta')
    fs.size_of = {posixpath.join(ROOT, 'cat/pkg/Manifest'): c.u_pkg,
                  posixpath.join(ROOT, 'metadata/Manifest'): c.u_meta}
    c.explicit_hashes = v.bool('explicit_hashes')
    return c


def run_create(c):
    fs = c.fs
    prof = get_profile_by_name(c.profile)
    kw = {}
    if c.explicit_hashes or c.profile == 'default':
        kw['hashes'] = ['MD5']
    out = 'saved'
    with fs.installed():
        m = ManifestRecursiveLoader(posixpath.join(ROOT, 'Manifest'), allow_create=True,
                                    profile=prof, verify_openpgp=False, **kw)
        c.loader_opts = (m.hashes, m.sort, m.compress_watermark, m.compress_format)
        m.update_entries_for_directory()
        m.save_manifests()
    c.fresh = tree.run_verify(fs, 'Manifest', '')
    return out


def judge_create(c, out):
    fs, prof = c.fs, c.profile
    want_hashes = ['MD5'] if (c.explicit_hashes or prof == 'default') \
        else ['BLAKE2B', 'SHA512']
    ignores_top = policy_ignores(prof, '')
    manifests = {}      # dir -> [names]
    problems = []

    def walk(node, rel):
        dirnames = [n for n, ch in node.children.items() if ch.kind == 'dir']
        filenames = [n for n, ch in node.children.items() if ch.kind != 'dir']
        ms = [n for n in filenames if n in MNAMES]
        data_files = [n for n in filenames if n not in MNAMES]
        if rel == '':
            if ms != ['Manifest']:
                problems.append(f'top level has {ms}')
        else:
            want = policy_want_manifest(prof, rel, dirnames, data_files)
            if want and len(ms) != 1:
                problems.append(f'{rel}: expected one Manifest, found {ms}')
            if not want and ms:
                problems.append(f'{rel}: unexpected Manifest {ms}')
        manifests[rel] = ms
        for d in dirnames:
            if rel == '' and d in ignores_top:
                continue
            walk(node.children[d], posixpath.join(rel, d))
    walk(fs.root, '')
    if problems:
        c.problems = problems
        return False, True
    acc, link_problems = tree.in_use_manifests(fs, 'Manifest')
    if link_problems:
        c.problems = link_problems
        return False, True
    for mpath, d, entries in acc:
        # default IGNOREs of a newly created Manifest
        igs = sorted(e.path for e in entries if e.tag == 'IGNORE')
        if igs != sorted(policy_ignores(prof, d)):
            c.problems = [f'{mpath}: IGNOREs {igs}']
            return False, True
        has_ebuild = False
        for e in entries:
            if e.tag in ('IGNORE', 'MANIFEST', 'TIMESTAMP'):
                continue
            full = posixpath.join(d, e.path)
            want_tag = policy_entry_type(prof, full)
            if want_tag == 'AUX' and not tree.cw_prefix(full, posixpath.join(d, 'files')):
                # AUX means "files/<name> next to this Manifest": a package directory
                # without a Manifest of its own cannot use it; plain DATA is equivalent
                want_tag = 'DATA'
            if e.tag != want_tag:
                c.problems = [f'{full}: typed {e.tag}']
                return False, True
            if sorted(e.checksums) != sorted(want_hashes):
                c.problems = [f'{full}: hashes {sorted(e.checksums)}']
                return False, True
            has_ebuild = has_ebuild or e.tag == 'EBUILD'
        # sorting applied by the ebuild profiles
        if prof != 'default':
            keys = [(e.tag, e.path) for e in entries]
            if keys != sorted(keys):
                c.problems = [f'{mpath}: not sorted']
                return False, True
        # compression: sub-Manifests at or above the watermark are compressed, package
        # Manifests stay plain under the backwards-compatible profile
        base = posixpath.basename(mpath)
        if mpath != 'Manifest' and prof != 'default':
            key = posixpath.join(ROOT, d, 'Manifest')
            size = fs.size_of.get(key)
            if size is not None:
                want_c = sym.le(128, size)
                if prof == 'old-ebuild' and has_ebuild:
                    want_c = False
                if want_c != (base != 'Manifest'):
                    c.problems = [f'{mpath}: compression']
                    return False, True
        if prof == 'default' and base != 'Manifest':
            return False, True
    return c.fresh == 'true', True


def s_edit(v):
    """a repository created earlier whose package Manifest is compressed on disk and holds no
    EBUILD entry yet; an ebuild (and optionally other files) appears; update with a profile"""
    c = Ctx()
    c.lite = True
    fs = c.fs = ModelFS(walk_fuel=200)
    c.profile = PROFILES[v.choice('profile', 3)]
    fs.add_file('cat/pkg/metadata.xml', size=2, digest='m')
    pkg = [mk('DATA' if c.profile != 'old-ebuild' else 'MISC', 'metadata.xml', 2,
              MD5=digest_for('MD5', 'm'))]
    if v.bool('new_ebuild'):
        fs.add_file('cat/pkg/x-1.ebuild', size=3, digest='e')
    if v.bool('new_patch'):
        fs.add_file('cat/pkg/files/p.patch', size=1, digest='p')
    pname = ('Manifest', 'Manifest.gz')[v.choice('pkg_compressed', 2)]
    fs.add_manifest('cat/pkg/' + pname, pkg, size=200, digest='P')
    fs.add_manifest('cat/Manifest', [mk('MANIFEST', 'pkg/' + pname, 200,
                                        MD5=digest_for('MD5', 'P'))], size=60, digest='C')
    fs.add_manifest('Manifest', [mk('MANIFEST', 'cat/Manifest', 60,
                                    MD5=digest_for('MD5', 'C'))]
                    + [mk('IGNORE', i) for i in policy_ignores(c.profile, '')])
    c.u_pkg = v.size('u_pkg')
    fs.size_of = {posixpath.join(ROOT, 'cat/pkg/Manifest'): c.u_pkg}
    c.u_meta = 0
    c.explicit_hashes = True
    return c


def run_edit(c):
    fs = c.fs
    prof = get_profile_by_name(c.profile)
    with fs.installed():
        m = ManifestRecursiveLoader(posixpath.join(ROOT, 'Manifest'), profile=prof,
                                    verify_openpgp=False, hashes=['MD5'],
                                    compress_watermark=128)
        m.update_entries_for_directory()
        m.save_manifests()
    c.fresh = tree.run_verify(fs, 'Manifest', '')
    return 'saved'


def judge_edit(c, out):
    fs, prof = c.fs, c.profile
    names = [n for n in fs.node('cat/pkg').children if n in MNAMES]
    if len(names) != 1:
        return False, True
    pkg = fs.node('cat/pkg/' + names[0])
    has_ebuild = any(e.tag == 'EBUILD' for e in pkg.entries)
    rewritten = any(op[0] == 'write' and '/cat/pkg/' in op[1] for op in fs.log)
    for e in pkg.entries:
        if e.tag in ('IGNORE', 'MANIFEST'):
            continue
        want_tag = policy_entry_type(prof, posixpath.join('cat/pkg', e.path))
        if e.path == 'metadata.xml':
            continue                    # existing entries keep their type (C10)
        if e.tag != want_tag:
            return False, True
    if rewritten:
        want_c = sym.le(128, c.u_pkg)
        if prof == 'old-ebuild' and has_ebuild:
            want_c = False              # package Manifests stay plain for Manifest2 tools
        if prof == 'default':
            want_c = sym.le(128, c.u_pkg)
        if want_c != (names[0] != 'Manifest'):
            return False, True
    return c.fresh == 'true', rewritten


def conditions(tier):
    cs = []
    for fx in partitions([('profile', range(3)), ('pkg_compressed', range(2)),
                          ('new_ebuild', (False, True))]):
        nm = f'edit_{PROFILES[fx["profile"]]}_c{fx["pkg_compressed"]}e{int(fx["new_ebuild"])}'
        cs.append(make_cond(
            nm, s_edit, run_edit, judge_edit, fx, timeout=600, group='M-edit', real=False,
            twin=False,
            descr='update (watermark 128) of a created repository whose package Manifest is '
                  'plain or compressed on disk and has no EBUILD entry yet, after an ebuild '
                  'and/or a files/ patch appeared: new entries typed by the profile, package '
                  'Manifest compressed by the watermark except that it must be (re)written '
                  'plain under old-ebuild once it holds an EBUILD entry; tree verifies',
            bounds='uncompressed size of the package Manifest symbolic; patch present or not'))
    for prof in range(3):
        for depth, i1 in [(0, None), (1, None)] + [
                (d, i) for d in (2, 3)
                for i in ((1, 4) if tier == 'quick' else range(1, len(C1)))]:
            fx = {'prof': prof, 'depth': depth}
            if i1 is not None:
                fx['i1'] = i1
            cs.append(Cond(
                f'want_manifest_{PROFILES[prof]}_d{depth + 1}'
                + ('' if i1 is None else f'_{C1[i1]}'),
                specialise(k_want_manifest, **fx), specialise(k_want_pre, **fx),
                timeout=600, group='K', twin=(prof != 0 and depth < 3),
                descr='want_manifest_in_directory vs the policy table for a path of '
                      f'{depth + 1} components drawn from policy literals, near-misses and a '
                      'component with a free code point; symbolic file and directory lists',
                bounds='components by symbolic choice (8x8x4) or "z"+<any code point>; 0-1 '
                       'subdirectories; one file name out of 5 next to a neutral one'))
        cs.append(Cond(f'entry_type_{PROFILES[prof]}', specialise(k_entry_type, prof=prof),
                       specialise(k_entry_type_pre, prof=prof), timeout=600, group='K',
                       twin=(prof == 2),
                       descr='get_entry_type_for_path vs the policy for 13 path shapes with a '
                             'free code point appended/prepended',
                       bounds='one free code point'))
    cs.append(Cond('ignore_paths', k_ignore_paths,
                   lambda prof, i: 0 <= prof < 3 and 0 <= i < len(IGPATHS), timeout=120,
                   group='K', descr='default IGNORE lists per directory and profile',
                   bounds='11 directories x 3 profiles'))
    cs.append(Cond('loader_options', k_loader_options, None, timeout=120, group='K',
                   descr='profile defaults (hashes, sort, watermark, format) apply only where '
                         'the user gave none', bounds='all combinations of given/unset'))
    lite = tier == 'quick'
    parts = [('profile', range(3)), ('has_ebuild', (False, True)),
             ('has_metadata_xml', (False, True)), ('has_files', (False, True))]
    if not lite:
        parts += [('has_glsa', (False, True)), ('has_cache', (False, True))]
    for fx in partitions(parts):
        nm = f'create_{PROFILES[fx["profile"]]}_' + ''.join(
            str(int(x)) for k, x in fx.items() if k != 'profile')
        cs.append(make_cond(
            nm, make_repo(lite), run_create, judge_create, fx, timeout=900, group='M-create',
            real=False, twin=False,
            descr='create (allow_create loader + update + save) with the profile on a '
                  'miniature repository with symbolic presence of its optional parts: '
                  'Manifest files exactly where the policy wants them, default IGNOREs, entry '
                  'types, hash set, sorting, compression by watermark (package Manifests '
                  'plain under old-ebuild), and a default-profile loader verifies the result',
            bounds='cat/pkg/{x-1.ebuild,metadata.xml,files/p.patch}, eclass, metadata/{glsa,'
                   'md5-cache/cat,timestamp}, distfiles, profiles: presence bits symbolic; '
                   'uncompressed sizes of two Manifests symbolic; hashes explicit or default'
                   + ('; eclass, metadata/timestamp, distfiles always present' if lite else '')))
    return cs


# validate() compares the real implementation with the property itself
VALIDATION_CHECKS_PROPERTY = True

ASSUMPTIONS = ['the policy table is transcribed from the statement and the profile '
               'docstrings', 'Manifest serialisation replaced by entry snapshots in the '
               'create runs']
OUTSIDE = ['repositories beyond the miniature shape', 'edits + updates after create (C03 '
           'covers update with the default profile)']
STUBS = ['ModelFS seams']


def validate(seed, tier):
    """real filesystem, real CLI: `gemato create -p <profile>` on a miniature repository puts
    Manifests exactly where the transcribed policy wants them and `gemato verify` (default
    profile) accepts the result"""
    import os
    from vf.realcheck import RealTree, gemato
    agree, details, errs = 0, [], []
    files = ['cat/pkg/x-1.ebuild', 'cat/pkg/metadata.xml', 'cat/pkg/files/p.patch',
             'cat/only-files/files/q.patch', 'eclass/e.eclass', 'licenses/L',
             'metadata/glsa/g.xml', 'metadata/md5-cache/cat/x-1', 'metadata/timestamp',
             'profiles/categories', 'distfiles/d.tar', 'header.txt']
    for prof in PROFILES:
        t = RealTree()
        try:
            for i, f in enumerate(files):
                t.write(f, bytes([97 + i]) * (i + 1))
            args = ['create', '-p', prof] + (['-H', 'MD5'] if prof == 'default' else []) \
                + [t.root]
            rc, out = gemato(*args)
            if rc != 0:
                errs.append(f'create -p {prof} failed: {out[-300:]}')
                continue
            for d, dn, fn in os.walk(t.root):
                rel = os.path.relpath(d, t.root)
                rel = '' if rel == '.' else rel
                if rel.split('/')[0] == 'distfiles' and prof != 'default':
                    continue
                ms = [f for f in fn if f in MNAMES]
                data = [f for f in fn if f not in MNAMES]
                want = True if rel == '' else policy_want_manifest(prof, rel, dn, data)
                if want != (len(ms) == 1) or len(ms) > 1:
                    errs.append(f'{prof}: directory {rel!r} has Manifests {ms}, policy says '
                                f'{want}')
            rcv, outv = gemato('verify', t.root)
            if rcv != 0:
                errs.append(f'{prof}: created tree does not verify: {outv[-300:]}')
            else:
                agree += 1
        finally:
            t.close()
    details.append({'profiles': list(PROFILES), 'files': len(files)})
    return agree, details, errs
