"""C12 - update is idempotent and, with sorting, canonical."""
import io
import itertools
import posixpath

from vf import sym, tree
from vf.engine import Cond
from vf.modelfs import ModelFS, mk, digest_for, copy_entry
from vf.scen import make_cond, partitions
from vf.props.c10 import same_entry, snapshot
from vf.props import c03

import gemato.compression as g_comp
from gemato.manifest import ManifestFile, new_manifest_entry

PROPERTY = 'C12'


class Ctx:
    pass


# ---------------------------------------------------------------------------------------
# (a) idempotence: a second update+save of an unchanged tree writes nothing

def make_idem(scn):
    def build(v):
        c = scn(v)
        c.force = False
        return c
    return build


def run_twice(c):
    w = tree.world(c)
    out1 = tree.run_update(w, 'Manifest', c.upath, c.hashes, c.sort, False)
    c.log1 = len(c.fs.log)
    c.snap1 = snapshot(c.fs)[0] if out1 == 'saved' else None
    c.out1 = out1
    if out1 != 'saved':
        return out1
    out2 = tree.run_update(w, 'Manifest', c.upath, c.hashes, c.sort, False)
    return out2


def judge_twice(c, out):
    if c.out1 != 'saved':
        return True, False
    if out != 'saved':
        return False, True
    # nothing logged in the second round, and every Manifest node is what it was
    if len(c.fs.log) != c.log1:
        return False, True
    snap2 = snapshot(c.fs)[0]
    if sorted(snap2) != sorted(c.snap1):
        return False, True
    for p in snap2:
        a, b = c.snap1[p], snap2[p]
        if len(a) != len(b) or not all(same_entry(x, y) for x, y in zip(a, b)):
            return False, True
    return True, True


# ---------------------------------------------------------------------------------------
# (b) canonical form: with sort=True the written entries do not depend on the order in
# which the walk returns names nor on the order of entries in the previous Manifests

PERMS3 = list(itertools.permutations(range(3)))


def s_canon(v):
    c = Ctx()
    worlds = []
    walk_perm = PERMS3[v.choice('walk_perm', 6)]
    ent_perm = PERMS3[v.choice('ent_perm', 6)]
    sub_perm = PERMS3[v.choice('sub_perm', 6)]
    c.rename = v.bool('rename')
    (a_size, a_dig) = v.filetoken('a_size', 'a_dig')
    ea_size, ea_dig = v.size('ea_size'), v.dig('ea_dig')
    if c.rename:
        # the real dump() renders text in these runs: keep every value concrete
        a_size, a_dig, ea_size, ea_dig = 3, 'A', 4, 'Z'
    b_listed = v.bool('b_listed')
    for variant in (0, 1):
        fs = ModelFS(written_sizes=[7, 8, 9])
        # with `rename` the real dump() runs (it owns the sorting), the sub-Manifest
        # crosses the compression watermark and is saved a second time under a new name
        fs.render = c.rename
        if c.rename:
            fs.size_of = {posixpath.join('/r', 'sub/Manifest'): 500}
        wp = walk_perm if variant else (0, 1, 2)
        ep = ent_perm if variant else (0, 1, 2)
        sp = sub_perm if variant else (0, 1, 2)
        names = ['a', 'b', 'c']
        for n in [names[i] for i in wp]:
            if n == 'a':
                fs.add_file('a', size=a_size, digest=a_dig)
            else:
                fs.add_file(n, size=2, digest=n.upper())
        snames = ['x', 'y', 'z']
        fs.add_dir('sub')
        for n in [snames[i] for i in sp]:
            fs.add_file('sub/' + n, size=1, digest=n)
        cck = {'MD5': digest_for('MD5', 'C')}
        if c.rename:
            # two checksums per entry, listed in a different order in the two histories
            # (hand-written or foreign Manifests); the file is unchanged, so the entry object
            # survives the update
            pairs = [('MD5', digest_for('MD5', 'C')), ('SHA1', digest_for('SHA1', 'C'))]
            cck = dict(pairs[::-1] if variant else pairs)
        base = [mk('DATA', 'a', ea_size, MD5=digest_for('MD5', ea_dig)),
                mk('MISC', 'c', 2, **cck),
                mk('MANIFEST', 'sub/Manifest', 5, MD5=digest_for('MD5', 'S'))]
        top = [base[i] for i in ep]
        if b_listed:
            top.insert(1 if variant else 0, mk('DATA', 'b', 2, MD5=digest_for('MD5', 'B')))
        # two names that differ only in case, listed in a different order in the two
        # histories (a sort key that folds case would leave their order to history)
        fs.add_file('q', size=1, digest='q')
        fs.add_file('Q', size=1, digest='Q')
        pair = [mk('DATA', 'q', 1, MD5=digest_for('MD5', 'q')),
                mk('DATA', 'Q', 1, MD5=digest_for('MD5', 'Q'))]
        top += pair[::-1] if variant else pair
        top.append(mk('IGNORE', 'zz'))
        top.append(mk('DIST', 'd.tar', 3, MD5=digest_for('MD5', 'd')))
        sbase = [mk('DATA', 'x', 1, MD5=digest_for('MD5', 'x')),
                 mk('EBUILD', 'y', 1, MD5=digest_for('MD5', 'y')),
                 mk('DATA', 'z', 9, MD5=digest_for('MD5', 'q'))]
        fs.add_manifest('sub/Manifest', [sbase[i] for i in sp], size=5, digest='S')
        fs.add_manifest('Manifest', top)
        worlds.append(fs)
    c.fs = worlds[0]
    c.fs2 = worlds[1]
    return c


def run_canon(c):
    kw = {'compress_watermark': 128} if c.rename else None
    hs = ('MD5', 'SHA1') if c.rename else ('MD5',)
    o1 = tree.run_update(c.fs, 'Manifest', '', hs, True, False, save_kw=kw)
    o2 = tree.run_update(c.fs2, 'Manifest', '', hs, True, False, save_kw=kw)
    return (o1, o2)


def judge_canon(c, out):
    if out != ('saved', 'saved'):
        # these trees update without error; an internal error here would hide everything
        if str(out[0]).startswith('crash') or str(out[1]).startswith('crash'):
            return False, False
        return out[0] == out[1], False
    s1, s2 = snapshot(c.fs)[0], snapshot(c.fs2)[0]
    if sorted(s1) != sorted(s2):
        return False, True
    if c.rename:
        # the text the real dump() wrote is the same in both histories, line by line (the
        # digests of rewritten Manifests are fresh tokens per world: MANIFEST lines apart)
        for p in s1:
            t1 = [ln for ln in c.fs.node(p).text if not ln.startswith('MANIFEST ')]
            t2 = [ln for ln in c.fs2.node(p).text if not ln.startswith('MANIFEST ')]
            if t1 != t2:
                return False, True
    for p in s1:
        a, b = s1[p], s2[p]
        if len(a) != len(b):
            return False, True
        for x, y in zip(a, b):
            if x.tag == 'MANIFEST' and y.tag == 'MANIFEST' and x.path == y.path:
                continue        # digests of rewritten Manifests are fresh tokens per world
            if not same_entry(x, y):
                return False, True
        # sorting requested: what is on disk is sorted
        keys = [(e.tag, getattr(e, 'path', '')) for e in a]
        if keys != sorted(keys):
            return False, True
    return True, True


# ---------------------------------------------------------------------------------------
# K: the real dump with sort=True is order independent; deterministic gzip header

ENTS4 = [('DATA', 'b', 1, {'MD5': 'x'}), ('DATA', 'a', 2, {'MD5': 'y'}),
         ('MISC', 'a', 3, {}), ('MANIFEST', 'm/Manifest', 4, {'SHA1': 'z'})]
PERMS4 = list(itertools.permutations(range(4)))


def k_dump_sorted(perm: int, extra_ignore: bool, extra_pos: int):
    def build(order):
        es = [new_manifest_entry(*ENTS4[i]) for i in order]
        if extra_ignore:
            es.insert(extra_pos, new_manifest_entry('IGNORE', 'ig'))
        return es
    m1, m2 = ManifestFile(), ManifestFile()
    m1.entries = build((0, 1, 2, 3))
    m2.entries = build(PERMS4[perm])
    f1, f2 = io.StringIO(), io.StringIO()
    m1.dump(f1, sort=True)
    m2.dump(f2, sort=True)
    t1, t2 = f1.getvalue(), f2.getvalue()
    n = 5 if extra_ignore else 4
    return (t1 == t2 and t1.count('\n') == n), perm != 0


def k_dump_pre(perm: int, extra_ignore: bool, extra_pos: int):
    return 0 <= perm < 24 and 0 <= extra_pos <= 4


class _RecGzip:
    calls = []

    def __init__(self, filename=None, mode=None, compresslevel=9, fileobj=None, mtime=None):
        _RecGzip.calls.append({'filename': filename, 'mode': mode, 'fileobj': fileobj,
                               'mtime': mtime})


def k_gzip_header(write: bool):
    """open_compressed_file('gz') must pin mtime=0 and an empty file name, otherwise equal
    content would give different bytes"""
    real = g_comp.gzip.GzipFile
    _RecGzip.calls = []
    g_comp.gzip.GzipFile = _RecGzip
    try:
        g_comp.open_compressed_file('gz', io.BytesIO(), 'wb' if write else 'rb')
    finally:
        g_comp.gzip.GzipFile = real
    kw = _RecGzip.calls[0]
    return (kw.get('mtime') == 0 and kw.get('filename') == ''
            and kw.get('mode') == ('wb' if write else 'rb')), True


def conditions(tier):
    cs = []
    full = tier != 'quick'
    # (a) idempotence on the C03 scenarios (single prior entry per Manifest and path: the
    # two-entries-in-one-Manifest family is the region of known finding F1, see C03)
    parts = [('a_kind', range(2)), ('e1_present', (False, True)), ('e2_present', (False,))]
    for fx in partitions(parts):
        nm = 'idem_flat_' + '_'.join(f'{k.replace("_", "")[:4]}{int(x)}'
                                     for k, x in fx.items())
        cs.append(make_cond(
            nm, make_idem(c03.make_flat(full, ('DATA', 'EBUILD'))), run_twice, judge_twice,
            fx, timeout=400, group='M-idem', real=False, twin=(fx['a_kind'] == 1),
            descr='update+save twice (fresh loader each time) on the model; the second '
                  'round must log no write and leave every Manifest node unchanged',
            bounds='C03 S-flat with at most one prior entry for a; force off'))
    parts = [('sub_state', range(5)), ('up', range(2)), ('c_kind', range(2)),
             ('ep_present', (False, True)), ('ec_present', (False, True))]
    for fx in partitions(parts):
        if fx['sub_state'] in (3, 4) and fx['ec_present']:
            continue
        if not full and (fx['up'] == 1 or fx['sub_state'] == 1):
            continue
        nm = 'idem_nest_' + '_'.join(f'{k.replace("_", "")[:4]}{int(x)}'
                                     for k, x in fx.items())
        cs.append(make_cond(
            nm, make_idem(c03.make_nest(full, ('DATA',))), run_twice, judge_twice, fx,
            timeout=1500 if full else 400, group='M-idem', real=False, twin=False,
            descr='update+save twice on the model (S-nest of C03); second round writes '
                  'nothing', bounds='C03 S-nest; force off'
                  + ('' if full else '; whole-tree update; link not stale')))
    # (b) canonical form
    for fx in partitions([('rename', (False, True)), ('walk_perm', range(6)),
                          ('ent_perm', range(6) if full else (1, 3, 5))]):
        if fx['rename'] and not full and fx['walk_perm'] not in (0, 3, 5):
            continue
        nm = f'canon_r{int(fx["rename"])}_w{fx["walk_perm"]}_e{fx["ent_perm"]}'
        cs.append(make_cond(
            nm, s_canon, run_canon, judge_canon, fx, timeout=400, group='M-canon',
            real=False, twin=(fx['walk_perm'] == 5 and not fx['rename']),
            descr='two replicas of one tree that differ only in the order the walk returns '
                  'names and in the order of prior entries; update+save with sort=True; '
                  'written entry sequences must be identical',
            bounds='3 names per directory (all 6 walk orders x 6 prior entry orders x 6 '
                   'sub-directory orders), optional extra entry at different positions, one '
                   'Manifest per directory; rename=0: file a and its entry symbolic; '
                   'rename=1: all values concrete, the real dump() renders, watermark 128 '
                   'makes the sub-Manifest change its name within the save'))
    cs.append(Cond('k_dump_sorted', k_dump_sorted, k_dump_pre, timeout=200, group='K',
                   descr='real ManifestFile.dump(sort=True) on any permutation of 4 entries '
                         'with distinct (tag,path) (+ optional IGNORE at any position) '
                         'renders identical text', bounds='4-5 entries, all 24 orders'))
    cs.append(Cond('k_gzip_header', k_gzip_header, None, timeout=60, group='K',
                   descr='open_compressed_file("gz") passes mtime=0, filename="" to GzipFile',
                   bounds='read and write mode', twin=False))
    return cs


# validate() compares the real implementation with the property itself
VALIDATION_CHECKS_PROPERTY = True

ASSUMPTIONS = [
    'Manifest serialisation replaced by entry snapshots in the model runs (the order is '
    'produced by the entries\' own __lt__); the real dump is decided by k_dump_sorted',
    'gzip/bz2/lzma byte determinism given equal header parameters (C code)',
]
OUTSIDE = ['more than one Manifest per directory (excluded by the statement)',
           'st_mtime_ns of real files (the model logs every write instead)',
           'the two-equal-entries family (known finding F1 of C03)']
STUBS = ['ModelFS seams', 'gzip.GzipFile recorder for the header check']


def validate(seed, tier):
    """real filesystem: a second `gemato update` leaves bytes and st_mtime_ns of every
    Manifest unchanged; with sorting, the bytes do not depend on creation order of files nor
    on the order of lines in the previous Manifest"""
    import random
    from vf.realcheck import RealTree, gemato
    rnd = random.Random(seed)
    agree, details, errs = 0, [], []
    names = ['a', 'b c', 'sub/x', 'sub/y', 'sub/deep/z', 'q\\r']
    blobs = {n: bytes(rnd.randrange(256) for _ in range(rnd.randrange(0, 40))) for n in names}
    results = []
    for k in range(3):
        t = RealTree()
        try:
            order = names[:]
            rnd.shuffle(order)
            for n in order:
                t.write(n, blobs[n])
            t.write('Manifest', b'')
            rc, out = gemato('create', '-p', 'ebuild', '-H', 'SHA256 MD5', t.root)
            if rc != 0:
                errs.append(f'create failed: {out[-300:]}')
                continue
            if k:
                # shuffle the lines of every plain Manifest, then update with sorting
                for rel, (data, _) in t.snapshot(True).items():
                    if not rel.endswith(('.gz', '.bz2', '.xz', '.lzma')):
                        ls = data.decode().splitlines(True)
                        rnd.shuffle(ls)
                        t.write(rel, ''.join(ls).encode())
            rc, out = gemato('update', '-p', 'ebuild', '-H', 'SHA256 MD5', '-f', t.root)
            s1 = t.snapshot(True)
            rc2, out = gemato('update', '-p', 'ebuild', '-H', 'SHA256 MD5', t.root)
            s2 = t.snapshot(True)
            if rc or rc2 or s1 != s2:
                errs.append('second update changed Manifest bytes or mtimes')
            else:
                agree += 1
            results.append({r: d for r, (d, _) in s2.items()})
        finally:
            t.close()
    if len(results) == 3 and results[0] == results[1] == results[2]:
        agree += 1
        details.append({'replicas': 3, 'manifests': sorted(results[0])})
    elif len(results) == 3:
        errs.append('sorted Manifests differ between creation/line orders')
    return agree, details, errs
