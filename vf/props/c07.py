"""C07 - every offending path is reported once; the status reflects any failure."""
from vf import tree
from vf.modelfs import ModelFS, mk, digest_for
from vf.scen import make_cond, partitions

PROPERTY = 'C07'


class Ctx:
    pass


def md5(tok):
    return digest_for('MD5', tok)


DISC = ('ok', 'missing', 'size', 'digest', 'type')


def make_scn(dirs, with_missing_dir, with_top):
    """per directory a listed file f with a symbolic choice of discrepancy (none, missing,
    altered size, altered digest, directory in its place) and a possible stray s;
    optionally a top-level file t (present/listed bits) and a listed but absent directory
    dm with two listed files."""
    def s_keep(v):
        c = Ctx()
        fs = c.fs = ModelFS()
        ents = []
        for d in dirs:
            fs.add_dir(d)
            k = DISC[v.choice(f'{d}_f', 5)]
            if k == 'ok':
                fs.add_file(f'{d}/f', size=5, digest='F')
            elif k == 'size':
                fs.add_file(f'{d}/f', size=6, digest='F')
            elif k == 'digest':
                fs.add_file(f'{d}/f', size=5, digest='G')
            elif k == 'type':
                fs.add_dir(f'{d}/f')
            ents.append(mk('DATA', f'{d}/f', 5, MD5=md5('F')))
            if v.bool(f'{d}_stray'):
                fs.add_file(f'{d}/s', size=1, digest='s')
            # a second stray whose name is that of the top-level Manifest
            if d == dirs[0] and v.bool(f'{d}_stray_manifest'):
                fs.add_file(f'{d}/Manifest', size=1, digest='M')
        if with_top:
            if v.bool('t_present'):
                fs.add_file('t', size=2, digest='T')
            if v.bool('t_listed'):
                ents.append(mk('DATA', 't', 2, MD5=md5('T')))
        if with_missing_dir:
            ents.append(mk('DATA', 'dm/x', 1, MD5=md5('x')))
            ents.append(mk('MISC', 'dm/y', 1, MD5=md5('y')))
            if v.bool('dm_present'):
                fs.add_file('dm/x', size=1, digest='x')
                fs.add_file('dm/y', size=1, digest='y')
        fs.add_manifest('Manifest', ents)
        c.hmode = v.lazychoice('hmode', 4)
        c.hk = v.int('hk', 0, 7)
        c.path = ('', dirs[0])[v.choice('vp', 2)]
        return c
    return s_keep


def run_keep(c):
    calls = []
    rets = []

    def handler(err):
        idx = len(calls)
        calls.append(err.path)
        if not mode:
            mode.append(c.hmode())
        m = mode[0]
        if m == 0:
            r = None if idx % 2 else True
        elif m == 1:
            r = False
        elif m == 2:
            r = False if idx == c.hk else True
        else:
            r = True if idx == c.hk else False
        rets.append(r)
        return r
    mode = []
    c.calls, c.rets = calls, rets
    c.observed = calls
    return tree.run_verify(tree.world(c), 'Manifest', c.path, None, fail_handler=handler)


def judge_keep(c, out):
    o = tree.oracle_verify(c.fs, 'Manifest', c.path)
    want = sorted(o.offending)
    got = sorted(c.calls)
    interesting = len(want) >= 2
    if got != want:
        return False, interesting
    exp = 'false' if any(r is False for r in c.rets) else 'true'
    return out == exp, interesting




def conditions(tier):
    cs = []
    if tier == 'quick':
        plans = [('k2', ('d1', 'd2'), True, False, [('d1_f', range(5)), ('vp', (0,)),
                                                    ('d1_stray_manifest', (False, True))]),
                 # sub-directory scan next to a sibling whose name merely starts like it
                 ('k2s', ('d1', 'd1x'), False, True, [('vp', (1,)), ('d1_f', range(5))]),
                 ('k1t', ('d1',), True, True, [('vp', (0,))])]
    else:
        plans = [('k2', ('d1', 'd1x'), True, True,
                  [('d1_f', range(5)), ('d1x_f', range(5)), ('vp', range(2))]),
                 ('k3', ('a', 'b', 'c'), False, False,
                  [('a_f', range(5)), ('b_f', range(5)), ('vp', (0,))])]
    for pname, dirs, wm, wt, parts in plans:
        sc = make_scn(dirs, wm, wt)
        for fx in partitions(parts):
            nm = pname + '_' + '_'.join(f'{k.replace("_", "")[:4]}{int(x)}'
                                        for k, x in fx.items())
            cs.append(make_cond(
                nm, sc, run_keep, judge_keep, fx, timeout=400, group='M-keep',
                twin=(fx['vp'] == 0 and len(dirs) > 1),
                descr='assert_directory_verifies with a recording fail handler whose '
                      'policy is symbolic (all True/None, all False, one False/True at '
                      'symbolic position k); calls must equal the oracle\'s offending set, '
                      'each once; return value False iff some call returned False',
                bounds=f'directories {dirs}, each: listed file with discrepancy in {DISC} '
                       'and optional stray; optional stray named Manifest in the first; '
                       + ('top-level file present/listed bits; ' if wt else '')
                       + ('absent-or-present directory dm with two listed files; '
                          if wm else '')
                       + 'verified path "" or first directory'))
    return cs


ASSUMPTIONS = [
    'Manifest parsing replaced by model entry objects; hash functions collision free',
    'handler policies: always True/None, always False, False exactly at the k-th call, True '
    'exactly at the k-th call (k symbolic) - mixed policies over positions, not over paths',
]
OUTSIDE = ['more than 3 directories', 'handlers that raise (that is strict mode: C01)',
           'symlink loops / device boundaries under keep-going (C16 decides they raise)']
STUBS = ['ModelFS seams (see C01)']


def validate(seed, tier):
    from vf.scen import validate_against_real
    return validate_against_real(conditions('quick'), seed, per_cond=2, limit=18)
