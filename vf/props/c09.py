"""C09 - malformed Manifest text is always rejected with a syntax error, never misread."""
import datetime
import io

from vf import sym
from vf.engine import Cond, specialise
from vf.props.c08 import IntModel, model_int

import gemato.manifest as gm
from gemato.exceptions import ManifestSyntaxError, ManifestUnsignedData
from gemato.manifest import ManifestFile, MANIFEST_TAG_MAPPING

PROPERTY = 'C09'
FILE_TAGS = ('DATA', 'MANIFEST', 'MISC', 'EBUILD', 'AUX', 'DIST')


class FieldList(list):
    """Field list whose slices stay in the class and which tells CrossHair not to realise
    its (symbolic) members when gemato formats them into an error message
    (f'... got: {data[1:]}' would otherwise enumerate code points)."""

    def __getitem__(self, i):
        r = list.__getitem__(self, i)
        return FieldList(r) if isinstance(i, slice) else r

    def __ch_deep_realize__(self, memo=None):
        return ['<fields>']

    def __repr__(self):
        return '<fields>'

    __str__ = __repr__


class Stub:
    """contract stubs for int() and strptime() inside gemato.manifest: any int or
    ValueError / any datetime or ValueError (what they parse is Python's business)"""

    def __init__(self, size_ok, size_val, ts_ok=True):
        self.size_ok, self.size_val, self.ts_ok = size_ok, size_val, ts_ok

    def __enter__(self):
        stub = self

        def _int(s, base=10):
            if base == 16:
                return model_int(s, 16)
            if not stub.size_ok:
                raise ValueError('invalid literal')
            return stub.size_val

        class _DT(datetime.datetime):
            @classmethod
            def strptime(cls, s, fmt):
                if not stub.ts_ok:
                    raise ValueError('no match')
                return cls(2020, 1, 1)

        class _Mod:
            datetime = _DT
        self.saved = (gm.__dict__.get('int', Stub), gm.datetime)
        gm.int = _int
        gm.datetime = _Mod
        return self

    def __exit__(self, *a):
        if self.saved[0] is Stub:
            del gm.int
        else:
            gm.int = self.saved[0]
        gm.datetime = self.saved[1]
        return False


PATH_SHAPES = ('c', 'cx', '/c', '\\c', '', 'xc', 'c/', '\\x2Fc', '\\u002fc', 'a\\x2Fc',
               'a\\U0000002fc')
CKNAMES = ('MD5', 'SHA1', 'BLAKE2B', 'md5', 'FOO', '__size__')


def path_field(shape, c):
    return PATH_SHAPES[shape].replace('c', c) if shape < 7 \
        else PATH_SHAPES[shape][:-1] + c


# ---- file-type entries: arity, size, checksum pairs, path validity --------------------------
def k_file_entry(tag: int, nfields: int, shape: int, c: str, size_ok: bool, size_val: int,
                 ck1: int, ck2: int, v1: str):
    ck1, ck2 = sym.pick_index(ck1, len(CKNAMES)), sym.pick_index(ck2, len(CKNAMES))
    t = FILE_TAGS[tag]
    pf = path_field(shape, c)
    fields = [t, pf, 'SIZE', CKNAMES[ck1], v1, CKNAMES[ck2], 'ab12'][:1 + nfields]
    data = FieldList(fields)
    with Stub(size_ok, size_val):
        try:
            e = MANIFEST_TAG_MAPPING[t].from_list(data)
        except ManifestSyntaxError:
            e = None
    # what must be rejected
    decoded_abs = shape in (2, 7, 8) or (shape == 0 and c == '/') \
        or (shape == 1 and c == '/') or (shape == 6 and c == '/')
    must_reject = (nfields < 2 or nfields % 2 == 1 or pf == '' or decoded_abs
                   or not size_ok or size_val < 0
                   or (shape == 3) or (c == '\\' and shape != 3)
                   or (t == 'DIST' and ('/' in pf or shape >= 7)))
    if shape == 3 and c in 'xuU':
        must_reject = True          # "\x" + nothing: truncated escape
    if e is None:
        return True, must_reject
    if must_reject:
        return False, True
    # accepted: the result is well-formed
    ok = (e.path != '' and e.path[0] != '/' and e.size == size_val and e.size >= 0
          and len(e.checksums) <= (nfields - 2) // 2)
    if t == 'DIST':
        ok = ok and '/' not in e.path
    return ok, False


def k_file_entry_pre(tag: int, nfields: int, shape: int, c: str, size_ok: bool,
                     size_val: int, ck1: int, ck2: int, v1: str):
    return (0 <= nfields <= 6 and len(c) == 1 and len(v1) == 1
            and 0 <= ck1 < len(CKNAMES) and 0 <= ck2 < len(CKNAMES)
            # whitespace cannot occur inside a field: fields come from str.split()
            and not c.isspace() and not v1.isspace())


# ---- IGNORE / TIMESTAMP ------------------------------------------------------------------------
def k_ignore(nfields: int, shape: int, c: str):
    pf = path_field(shape, c)
    data = FieldList(['IGNORE', pf, 'extra', 'more'][:1 + nfields])
    try:
        e = MANIFEST_TAG_MAPPING['IGNORE'].from_list(data)
    except ManifestSyntaxError:
        e = None
    decoded_abs = shape in (2, 7, 8) or (shape in (0, 1, 6) and c == '/')
    must_reject = (nfields != 1 or pf == '' or decoded_abs or shape == 3
                   or (c == '\\'))
    if e is None:
        return True, must_reject
    if must_reject:
        return False, True
    return e.path != '' and e.path[0] != '/', False


def k_ignore_pre(nfields: int, shape: int, c: str):
    return 0 <= nfields <= 3 and len(c) == 1 and not c.isspace()


def k_timestamp(nfields: int, ts_ok: bool, c: str):
    data = FieldList(['TIMESTAMP', '2020-01-01T00:00:0' + c, 'x'][:1 + nfields])
    with Stub(True, 0, ts_ok):
        try:
            e = MANIFEST_TAG_MAPPING['TIMESTAMP'].from_list(data)
        except ManifestSyntaxError:
            e = None
    must_reject = nfields != 1 or not ts_ok
    return (e is None) == must_reject, must_reject


def k_timestamp_pre(nfields: int, ts_ok: bool, c: str):
    return 0 <= nfields <= 2 and len(c) == 1


# ---- escapes over the full value range ----------------------------------------------------------
ESC = (('x', 2), ('u', 4), ('U', 8))
POS = (('', ''), ('a', 'b'), ('', 'b'))


def make_escape(kind, n, a, b, tail=''):
    def k_escape(h: str):
        field = a + '\\' + kind + h + tail + b
        with IntModel():
            try:
                p = gm.ManifestPathEntry.process_path(FieldList(['IGNORE', field]))
            except ManifestSyntaxError:
                return True, False
        # accepted: the escape stood for exactly one code point, and the decoded path is a
        # non-empty relative path
        return p != '' and p[0] != '/' and len(p) == len(a) + 1 + len(b), True

    def pre(h: str):
        return len(h) == n - len(tail)
    return k_escape, pre


def make_truncated(kind, n):
    def k_truncated(h: str):
        field = 'a\\' + kind + h
        with IntModel():
            try:
                gm.ManifestPathEntry.process_path(FieldList(['IGNORE', field]))
            except ManifestSyntaxError:
                return True, True
        return False, True

    def pre(h: str):
        return len(h) == n - 1
    return k_truncated, pre


# ---- line level: tags -------------------------------------------------------------------------
TAGWORDS = ('DATA', 'data', 'Data', 'DATAX', 'DAT', 'MANIFEST', 'IGNORE', 'ignore', 'DIST',
            'EBUILD', 'MISC', 'AUX', 'TIMESTAMP', 'timestamp', 'X', '-', 'MD5', 'SIZE')
RESTS = (' a 0', ' a', '', ' a 0 MD5', ' a 0 MD5 x', ' 2020-01-01T00:00:00Z', ' a -1',
         ' a 1x', ' /a 0', ' a b c d e')


def k_line(tw: int, rest: int, lead: int, second: int):
    line = ('', ' ', '\t')[lead] + TAGWORDS[tw] + RESTS[rest] + '\n'
    line2 = ('', 'DATA ok 1\n', 'junk\n')[second]
    m = ManifestFile()
    try:
        m.load(io.StringIO(line + line2), verify_openpgp=False)
        got = 'ok'
    except ManifestSyntaxError:
        got = 'syntax'
    except ManifestUnsignedData:
        got = 'unsigned'
    t, r = TAGWORDS[tw], RESTS[rest]
    file_tags = ('DATA', 'MANIFEST', 'DIST', 'EBUILD', 'MISC', 'AUX')
    if t in file_tags:
        valid = r in (' a 0', ' a 0 MD5 x')
    elif t == 'IGNORE':
        valid = r in (' a', ' 2020-01-01T00:00:00Z')
    elif t == 'TIMESTAMP':
        valid = r == ' 2020-01-01T00:00:00Z'
    else:
        valid = False
    valid = valid and second != 2
    if valid:
        return got == 'ok' and len(m.entries) == (2 if second == 1 else 1), False
    return got == 'syntax', True


DASH = ('- ', '- - ', '- -', '--', '-', '- --', '-  - ')
SIGNED_HEAD = '-----BEGIN PGP SIGNED MESSAGE-----\nHash: SHA512\n\n'
SIGNED_TAIL = '-----BEGIN PGP SIGNATURE-----\nabcd\n-----END PGP SIGNATURE-----\n'


def k_signed_line(tw: int, rest: int, dash: int):
    """the same line rules inside an OpenPGP cleartext block: exactly one "- " is the
    dash-escape; anything more belongs to the line and makes it malformed"""
    d = DASH[sym.pick_index(dash, len(DASH))]
    t = TAGWORDS[sym.pick_index(tw, len(TAGWORDS))]
    r = RESTS[sym.pick_index(rest, len(RESTS))]
    text = SIGNED_HEAD + 'DATA first 1\n' + d + t + r + '\n' + SIGNED_TAIL
    m = ManifestFile()
    try:
        m.load(io.StringIO(text), verify_openpgp=False)
        got = 'ok'
    except ManifestSyntaxError:
        got = 'syntax'
    except ManifestUnsignedData:
        got = 'unsigned'
    file_tags = ('DATA', 'MANIFEST', 'DIST', 'EBUILD', 'MISC', 'AUX')
    if t in file_tags:
        valid = r in (' a 0', ' a 0 MD5 x')
    elif t == 'IGNORE':
        valid = r in (' a', ' 2020-01-01T00:00:00Z')
    elif t == 'TIMESTAMP':
        valid = r == ' 2020-01-01T00:00:00Z'
    else:
        valid = False
    if d == '- ' and valid:
        return got == 'ok' and len(m.entries) == 2, False
    return got == 'syntax', True


def k_signed_line_pre(tw: int, rest: int, dash: int):
    return 0 <= tw < len(TAGWORDS) and 0 <= rest < len(RESTS) and 0 <= dash < len(DASH)


def k_line_pre(tw: int, rest: int, lead: int, second: int):
    return (0 <= tw < len(TAGWORDS) and 0 <= rest < len(RESTS) and 0 <= lead <= 2
            and 0 <= second <= 2)


# ---- the size field with Python's real number grammar ----------------------------------------
_real_int = int
SIGNS = '+-_'


def _ascii_digits(s):
    if len(s) == 0:
        return False
    for ch in s:
        if not ('0' <= ch <= '9'):
            return False
    return True


def model_int10(s, base=10):
    """int(str) for the engine: ASCII digit strings by digit arithmetic; a string that holds
    any character outside (decimal digits Nd, white space, + - _) is rejected, as CPython's
    number grammar prescribes; everything else goes to the builtin (concrete)."""
    if base != 10 or not isinstance(s, str):
        return model_int(s, base) if base == 16 else _real_int(s, base)
    if _ascii_digits(s):
        v = 0
        for ch in s:
            v = v * 10 + (ord(ch) - 48)
        return v
    for ch in s:
        if not (ch.isdecimal() or ch.isspace() or ch in SIGNS):
            raise ValueError(f'invalid literal for int() with base 10')
    return _real_int(s)


class Int10Model:
    def __enter__(self):
        self.saved = gm.__dict__.get('int', Int10Model)
        gm.int = model_int10

    def __exit__(self, *a):
        if self.saved is Int10Model:
            del gm.int
        else:
            gm.int = self.saved
        return False


SMALL = ('0', '7', '+', '-', '_', ' ', '\u0663', '\uff15', '\u00b2')


def make_size_field(tag, n, small):
    t = FILE_TAGS[tag]

    def run(s):
        with Int10Model():
            try:
                e = MANIFEST_TAG_MAPPING[t].from_list(FieldList([t, 'a', s]))
            except ManifestSyntaxError:
                # a plain decimal number is a valid size
                return not _ascii_digits(s), True
        ok = e.size >= 0
        if _ascii_digits(s):
            v = 0
            for ch in s:
                v = v * 10 + (ord(ch) - 48)
            ok = ok and e.size == v
        return ok, False

    def real(s):
        """the same field through the unstubbed parser (builtin int)"""
        try:
            e = MANIFEST_TAG_MAPPING[t].from_list([t, 'a', s])
        except ManifestSyntaxError:
            bad = _ascii_digits(s)
            return {'reproduced': bad, 'detail': 'plain decimal size rejected' if bad else
                    'rejected with ManifestSyntaxError'}
        except Exception as ex:
            return {'reproduced': True, 'detail': f'{type(ex).__name__} escapes: {ex}'}
        return {'reproduced': e.size < 0, 'detail': f'accepted, size={e.size}'}

    if small:
        def k_size_field(i1: int, i2: int, i3: int, n_: int):
            idx = [sym.pick_index(i, len(SMALL)) for i in (i1, i2, i3)]
            s = ''.join([SMALL[i] for i in idx][:n_])
            return run(s)

        def pre(i1: int, i2: int, i3: int, n_: int):
            return 0 <= n_ <= 3
        k_size_field.real = lambda a: real(''.join(
            [SMALL[i if 0 <= i < len(SMALL) - 1 else len(SMALL) - 1]
             for i in (a['i1'], a['i2'], a['i3'])][:a['n_']]))
        return k_size_field, pre

    def k_size_field(s: str):
        return run(s)

    def pre(s: str):
        if len(s) != n:
            return False
        for ch in s:
            # the complement (non-ASCII decimal digits, white space, signs, underscore) is
            # covered over a concrete alphabet by size_field_*_small
            if not ('0' <= ch <= '9') and (ch.isdecimal() or ch.isspace() or ch in SIGNS):
                return False
        return True
    k_size_field.real = lambda a: real(a['s'])
    return k_size_field, pre


def size_field_conditions(tier):
    cs = []
    for tag in ((0, 4) if tier == 'quick' else range(len(FILE_TAGS))):
        for n in (0, 1, 2):
            fn, pre = make_size_field(tag, n, False)
            cs.append(Cond(
                replay_real=fn.real, name=f'size_field_{FILE_TAGS[tag]}_n{n}', body=fn,
                pre=pre, timeout=600, group='size',
                twin=(n > 0),
                descr=f'{FILE_TAGS[tag]}.from_list with a free size field of {n} characters '
                      'and Python\'s number grammar (ASCII digits by digit arithmetic, any '
                      'character outside Nd/white space/+-_ makes int() raise ValueError): '
                      'only ManifestSyntaxError may escape, plain decimal numbers are '
                      'accepted with their value, nothing negative is accepted',
                bounds=f'all strings of {n} characters over ASCII digits and every code point '
                       'that is not a decimal digit, white space, sign or underscore (e.g. '
                       'superscript and circled digits, letters)'))
        fn, pre = make_size_field(tag, 3, True)
        cs.append(Cond(
            replay_real=fn.real, name=f'size_field_{FILE_TAGS[tag]}_small', body=fn, pre=pre,
            timeout=600, group='size',
            descr='the same with the builtin int() on strings over a concrete alphabet of the '
                  'remaining character kinds',
            bounds=f'all strings of length <= 3 over {SMALL!r}'))
    return cs


def conditions(tier):
    cs = []
    full = tier != 'quick'
    for tag in range(len(FILE_TAGS)):
        for shape in range(len(PATH_SHAPES)):
            if not full and tag not in (0, 4, 5) and shape > 2:
                continue
            fx = {'tag': tag, 'shape': shape}
            if not full:
                fx['ck2'] = 1       # quick: second checksum name fixed, first symbolic
            cs.append(Cond(
                f'file_entry_{FILE_TAGS[tag]}_s{shape}', specialise(k_file_entry, **fx),
                specialise(k_file_entry_pre, **fx), timeout=600, group='entry',
                descr=f'{FILE_TAGS[tag]}.from_list on 0-6 fields; path field = '
                      f'{PATH_SHAPES[shape]!r} with c any code point; size via contract stub '
                      '(any int / ValueError); checksum names by symbolic choice (real, '
                      'lower-case, unknown, __size__), one value a free code point: only '
                      'ManifestSyntaxError may escape; wrong arity, missing checksum value, '
                      'negative or non-numeric size, empty/absolute (also escaped) path, DIST '
                      'with slash are rejected; an accepted entry is well-formed',
                bounds='one free code point per field; field counts 0..6'))
    cs += size_field_conditions(tier)
    for shape in range(len(PATH_SHAPES)):
        cs.append(Cond(f'ignore_s{shape}', specialise(k_ignore, shape=shape),
                       specialise(k_ignore_pre, shape=shape), timeout=600, group='entry',
                       descr='IGNORE.from_list: arity and path validity',
                       bounds='0-3 fields, one free code point'))
    cs.append(Cond('timestamp', k_timestamp, k_timestamp_pre, timeout=300, group='entry',
                   descr='TIMESTAMP.from_list: arity; strptime via contract stub',
                   bounds='0-2 fields'))
    for kind, n in ESC:
        for pi, (a, b) in enumerate(POS):
            tail = ('0000' if not full else '00') if kind == 'U' else ''
            fn, pre = make_escape(kind, n, a, b, tail)
            cs.append(Cond(
                f'escape_{kind}_{pi}', fn, pre, timeout=900 if not full else 2400,
                group='escape',
                descr=f'process_path on {a!r}+"\\\\{kind}"+<{n} free characters>+{b!r}: only '
                      'ManifestSyntaxError may escape; accepted only if all hex, value is a '
                      'code point, decoded path non-empty and relative',
                bounds=f'all {n - len(tail)}-character strings (hex and non-hex) followed by '
                       f'{tail!r}; values up to 16**{n}-1 incl. surrogates and > 0x10FFFF'))
        fn, pre = make_truncated(kind, n)
        cs.append(Cond(f'truncated_{kind}', fn, pre, timeout=600, group='escape',
                       descr=f'"\\\\{kind}" followed by only {n - 1} characters at the end of '
                             'the field is a syntax error', bounds=f'{n - 1} free characters'))
    for dz in range(len(DASH)):
        cs.append(Cond(f'signed_line_d{dz}', specialise(k_signed_line, dash=dz),
                       specialise(k_signed_line_pre, dash=dz), timeout=300, group='line',
                       twin=False,
                       descr=f'real load() of a cleartext-signed block whose second line is '
                             f'{DASH[dz]!r} + tag word + tail: only a single "- " is an escape',
                       bounds='18 tag words x 10 tails'))
    for tw in range(len(TAGWORDS)):
        cs.append(Cond(f'line_{tw}', specialise(k_line, tw=tw), specialise(k_line_pre, tw=tw),
                       timeout=300, group='line', twin=False,
                       descr=f'real ManifestFile.load on a line starting with {TAGWORDS[tw]!r} '
                             '(tags, case variants, look-alikes) x 10 field tails x leading '
                             'blank x following line: unknown tags and malformed lines give a '
                             'syntax error, nothing is skipped',
                       bounds='symbolic choices among concrete shapes'))
    return cs


ASSUMPTIONS = [
    'file_entry_*: which digit strings Python\'s int() accepts is Python\'s business '
    '(contract stub: any int or ValueError); likewise strptime',
    'size_field_*: int() follows CPython\'s number grammar - a string holding any character '
    'outside decimal digits (Nd), white space, "+", "-", "_" raises ValueError; ASCII digit '
    'strings evaluate by digit arithmetic (model validated against the builtin on every run)',
    'fields contain no whitespace (they come from str.split())',
]
OUTSIDE = ['whole texts beyond one or two lines (lines are independent except through the '
           'OpenPGP state machine of C04)', 'byte-level mutations of long Manifests']
STUBS = ['gemato.manifest.int / datetime -> contract stubs', 'field lists passed as a list '
         'subclass that is not realised inside error messages']


def validate(seed, tier):
    """translator validation: the number-grammar model of int() against the builtin on all
    strings of length <= 3 over an alphabet with every character kind the model tells apart"""
    import itertools
    alpha = ('0', '9', 'a', '\u00b2', '\u2460', '\u0663', '\uff15', ' ', '\u2003', '+', '-',
             '_', '\x00', '\U0001d7d8', '.')
    n, errs = 0, []

    def outcome(fn, s):
        try:
            return fn(s)
        except ValueError:
            return 'ValueError'
    for k in range(4):
        for tup in itertools.product(alpha, repeat=k):
            s = ''.join(tup)
            if outcome(model_int10, s) != outcome(int, s):
                raise RuntimeError(f'translator validation: model_int10({s!r}) differs from '
                                   'the builtin')
            n += 1
    return n, [{'alphabet': [hex(ord(c)) for c in alpha], 'max_len': 3}], errs
