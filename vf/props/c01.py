"""C01 - recursive verification accepts exactly the trees that match their Manifests."""
import posixpath

from vf.halfsec import HalfSec
from vf.engine import Cond, specialise
from vf import venv_verify as ve

import gemato.verify as gv
from gemato.exceptions import ManifestCrossDevice
from gemato.manifest import new_manifest_entry
from gemato.util import path_starts_with, path_inside_dir

PROPERTY = 'C01'
FILE_TAGS = ('DATA', 'MISC', 'EBUILD', 'AUX', 'MANIFEST')
HN = ('MD5', 'SHA1')
HL = ('md5', 'sha1')


def mk_entry(etag, esize, nck, e1, e2, path='f'):
    if etag == 0:
        return None
    if etag == 1:
        return new_manifest_entry('IGNORE', path)
    ck = {}
    if nck >= 1:
        ck[HN[0]] = e1
    if nck >= 2:
        ck[HN[1]] = e2
    return new_manifest_entry(FILE_TAGS[etag - 2], path, esize, ck)


# ---------------------------------------------------------------------------------------
# K1: the per-file rule (real verify_path over real get_file_metadata)

def k1_pre(kind: int, etag: int, esize: int, nck: int, e1: str, e2: str, st_size: int,
           true_size: int, mtime: int, g1: str, g2: str, use_mtime: bool,
           last_mtime: int, use_dev: bool, dev: int, expected_dev: int,
           half: bool = False) -> bool:
    return (0 <= kind <= 6 and 0 <= etag <= 6 and 0 <= nck <= 2 and esize >= 0
            and true_size >= 0 and (st_size == true_size or st_size == 0)
            and len(e1) <= 1 and len(e2) <= 1 and len(g1) <= 1 and len(g2) <= 1)


def k1_verify_path(kind: int, etag: int, esize: int, nck: int, e1: str, e2: str,
                   st_size: int, true_size: int, mtime: int, g1: str, g2: str,
                   use_mtime: bool, last_mtime: int, use_dev: bool, dev: int,
                   expected_dev: int, half: bool = False):
    e = mk_entry(etag, esize, nck, e1, e2)
    if half:
        # st_mtime has sub-second resolution: half a second past the whole second
        mtime = HalfSec(2 * mtime + 1)
    f = ve.OneFile(ve.KINDS[kind], dev=dev, st_size=st_size, mtime=mtime,
                   true_size=true_size, digests={HL[0]: g1, HL[1]: g2})
    raised = None
    with ve.Installed(f):
        try:
            ret, diff = gv.verify_path('/r/f', e,
                                       expected_dev=expected_dev if use_dev else None,
                                       last_mtime=last_mtime if use_mtime else None)
        except ManifestCrossDevice:
            raised = 'xdev'
    # (descriptor hygiene is deliberately not asserted: the statement of C01/C06 does not
    # cover it; verify_path does leak the descriptor on early return - see DESIGN.md par.7)
    fds_ok = True
    exists = kind != 0
    if etag == 1:
        return raised is None and ret is True and fds_ok and not f.hashed, False
    if etag == 0:
        return raised is None and ret == (not exists) and fds_ok, False
    if not exists:
        return raised is None and ret is False and fds_ok, False
    if use_dev and dev != expected_dev:
        return raised == 'xdev' and fds_ok, False
    if raised is not None:
        return False, True
    if kind != 1:
        return ret is False and fds_ok, False
    full = (true_size == esize and (nck < 1 or e1 == g1) and (nck < 2 or e2 == g2))
    may_skip = (use_mtime and mtime <= last_mtime and true_size == esize
                and st_size == esize and st_size != 0)
    interesting = (not full) and true_size == esize
    if ret == full:
        return fds_ok and (bool(diff) == (not ret)), interesting
    return (ret is True and may_skip and fds_ok), interesting


# ---------------------------------------------------------------------------------------
# K2: component-wise prefix matching (IGNORE and Manifest scoping rest on it)

def _components_prefix(path: str, prefix: str) -> bool:
    """Reference: the components of prefix are a leading run of the components of path."""
    if prefix == '':
        return True
    pc = path.split('/')
    qc = prefix.split('/')
    return len(qc) <= len(pc) and pc[:len(qc)] == qc


def _normalised(p: str) -> bool:
    # what every caller passes: results of os.path.join/relpath/dirname on relative paths
    return not p.startswith('/') and not p.endswith('/') and '//' not in p


def make_k2(np_, nq):
    def pre(path: str, prefix: str) -> bool:
        return (len(path) <= np_ and len(prefix) <= nq and _normalised(path)
                and _normalised(prefix))

    def k2_path_starts_with(path: str, prefix: str):
        exp = _components_prefix(path, prefix)
        got = path_starts_with(path, prefix)
        # documented alternative form of the prefix: with a trailing slash
        got2 = path_starts_with(path, prefix + '/') if prefix else got
        return (got == exp and got2 == exp), (exp and prefix != '' and path != prefix)

    def k2_path_inside_dir(path: str, prefix: str):
        exp = _components_prefix(path, prefix) and path != prefix and path != ''
        got = path_inside_dir(path, prefix)
        return got == exp, (exp and prefix != '')
    return pre, k2_path_starts_with, k2_path_inside_dir


# ---------------------------------------------------------------------------------------
# K3: compatibility of duplicate entries

def k3_pre(t1: int, t2: int, s1: int, s2: int, p2a: bool, p2b: bool,
           a1: str, b1: str, a2: str, b2: str) -> bool:
    return (0 <= t1 <= 4 and 0 <= t2 <= 4 and s1 >= 0 and s2 >= 0
            and len(a1) <= 1 and len(b1) <= 1 and len(a2) <= 1 and len(b2) <= 1)


def make_k3(p1a, p1b):
    def k3_entry_compat(t1: int, t2: int, s1: int, s2: int, p2a: bool,
                        p2b: bool, a1: str, b1: str, a2: str, b2: str):
        return _k3(t1, t2, s1, s2, p1a, p1b, p2a, p2b, a1, b1, a2, b2)
    return k3_entry_compat


def _k3(t1, t2, s1, s2, p1a, p1b, p2a, p2b, a1, b1, a2, b2):
    c1, c2 = {}, {}
    if p1a:
        c1[HN[0]] = a1
    if p1b:
        c1[HN[1]] = b1
    if p2a:
        c2[HN[0]] = a2
    if p2b:
        c2[HN[1]] = b2
    x = new_manifest_entry(FILE_TAGS[t1], 'f', s1, c1)
    y = new_manifest_entry(FILE_TAGS[t2], 'f', s2, c2)
    ret, diff = gv.verify_entry_compatibility(x, y)
    compat_tags = ('MANIFEST', 'DATA', 'EBUILD', 'AUX')
    tags_ok = t1 == t2 or (FILE_TAGS[t1] in compat_tags and FILE_TAGS[t2] in compat_tags)
    clash = (p1a and p2a and a1 != a2) or (p1b and p2b and b1 != b2)
    exp = tags_ok and s1 == s2 and not clash
    ok = ret == exp
    if ok and exp:
        # the diff must carry exactly the hashes present on one side only, with the value
        only = {}
        if p1a != p2a:
            only[HN[0]] = (a1 if p1a else None, a2 if p2a else None)
        if p1b != p2b:
            only[HN[1]] = (b1 if p1b else None, b2 if p2b else None)
        got = {k: (v1, v2) for k, v1, v2 in diff}
        ok = got == only
    return ok, (exp and p1a != p2a)


def conditions(tier):
    cs = [
    ]
    for etag, fixed in [(t, {'half': False}) for t in range(7)] + \
                       [(t, {'half': True, 'use_mtime': True}) for t in range(2, 7)]:
        cs.append(Cond(
            f'k1_verify_path_e{etag}' + ('_subsec' if fixed['half'] else ''),
            specialise(k1_verify_path, etag=etag, **fixed),
            specialise(k1_pre, etag=etag, **fixed), timeout=300, group='K1',
            twin=(etag >= 2),
            descr='real verify_path+get_file_metadata vs per-file rule; all attributes '
                  f'symbolic; entry = {(("none", "IGNORE") + FILE_TAGS)[etag]}',
            bounds='7 object kinds; unbounded ints; digests: any str of len<=1; '
                   '<=2 hash names; st_size in {true size, 0}; last_mtime None or any int, '
                   'st_mtime whole or with a half-second fraction; '
                   'expected_dev None or any int'))
    for p1a in (False, True):
        for p1b in (False, True):
            cs.append(Cond(
                f'k3_entry_compat_{int(p1a)}{int(p1b)}', make_k3(p1a, p1b), k3_pre,
                timeout=150, group='K3',
                descr='verify_entry_compatibility on two symbolic file entries '
                      f'(first entry has MD5:{p1a} SHA1:{p1b})',
                bounds='5 file tags x 5; 2 hash names with presence bits; unbounded '
                       'sizes; digests any str of len<=1'))
    np_, nq = (4, 3) if tier == 'quick' else (6, 4)
    pre, a, b = make_k2(np_, nq)
    cs.append(Cond('k2_path_starts_with', a, pre, timeout=90 if tier == 'quick' else 900,
                   group='K2', descr='path_starts_with vs component-prefix reference',
                   bounds=f'|path|<={np_}, |prefix|<={nq}, all code points, normalised'))
    cs.append(Cond('k2_path_inside_dir', b, pre, timeout=90 if tier == 'quick' else 900,
                   group='K2', descr='path_inside_dir vs component-prefix reference',
                   bounds=f'|path|<={np_}, |prefix|<={nq}, all code points, normalised'))
    cs += m_conditions(tier)
    return cs


# ---------------------------------------------------------------------------------------
# M: whole-tree verdicts on the model filesystem
from vf.modelfs import ModelFS, mk, digest_for  # noqa: E402
from vf.scen import make_cond, partitions, V as V_   # noqa: E402
from vf import tree                            # noqa: E402

ETAGS = ('DATA', 'MISC', 'EBUILD', 'MANIFEST', 'IGNORE')


def file_slot(v, fs, rel, p, kinds=('absent', 'file', 'dir')):
    k = v.choice(p + '_kind', len(kinds))
    (size, dig), mt = v.filetoken(p + '_size', p + '_dig'), v.int(p + '_mtime')
    kind = kinds[k]
    if kind == 'file':
        fs.add_file(rel, size=size, digest=dig, mtime=mt)
    elif kind == 'dir':
        fs.add_dir(rel)
    elif kind != 'absent':
        fs.add_file(rel, kind=kind)
    return kind


def entry_slot(v, p, path, tags=ETAGS, two_hashes=False):
    present = v.bool(p + '_present')
    t = v.lazychoice(p + '_tag', len(tags))
    size, dig = v.size(p + '_size'), v.dig(p + '_dig')
    dig2 = v.dig(p + '_dig2') if two_hashes else None
    if not present:
        return []
    tag = tags[t()]
    if tag == 'IGNORE':
        return [mk('IGNORE', path)]
    ck = {'MD5': digest_for('MD5', dig)}
    if two_hashes:
        ck['SHA1'] = digest_for('SHA1', dig2)
    return [mk(tag, path, size, **ck)]


class Ctx:
    pass


def pick(seq, idx):
    return seq[idx]


class Const(V_):
    """value supplier that answers from a table of constants for some names (making that
    part of the scenario consistent by construction) and defers to `v` otherwise"""

    def __init__(self, v, consts):
        self.v, self.consts = v, consts

    def _c(self, name, f, *a):
        if name in self.consts:
            return self.consts[name]
        return f(name, *a)

    def int(self, name, lo=None, hi=None):
        return self._c(name, self.v.int, lo, hi)

    def size(self, name):
        return self._c(name, self.v.size)

    def bool(self, name):
        return self._c(name, self.v.bool)

    def dig(self, name):
        return self._c(name, self.v.dig)

    def choice(self, name, n):
        return self._c(name, self.v.choice, n)

    def assume(self, pred, *names):
        if not any(n in self.consts for n in names):
            self.v.assume(pred, *names)

    def filetoken(self, size_name, dig_name):
        return V_.filetoken(self, size_name, dig_name)

    def lazychoice(self, name, n):
        if name in self.consts:
            return lambda: self.consts[name]
        return self.v.lazychoice(name, n)


A_OK = {'a_kind': 1, 'a_size': 2, 'a_dig': 'A', 'a_mtime': 3, 'ea_present': True,
        'ea_tag': 0, 'ea_size': 2, 'ea_dig': 'A'}
C_OK = {'c_kind': 1, 'c_size': 4, 'c_dig': 'C', 'c_mtime': 3, 'ec_present': True,
        'ec_tag': 0, 'ec_size': 4, 'ec_dig': 'C'}


def make_s_nest(a_tags=ETAGS, c_tags=ETAGS, consts=None):
    def s_nest(v):
        return _s_nest(Const(v, consts) if consts else v, a_tags, c_tags)
    return s_nest


def _s_nest(v, a_tags, c_tags):
    """Manifest, a, sub/{Manifest, c}, subx/{d}; `subx` is a string- but not
    component-prefix look-alike of `sub`."""
    c = Ctx()
    fs = c.fs = ModelFS()
    file_slot(v, fs, 'a', 'a')
    fs.add_dir('sub')
    fs.add_dir('subx')
    file_slot(v, fs, 'sub/c', 'c')
    fs.add_file('subx/d', size=3, digest='D', mtime=5)
    sm_size, sm_dig = v.filetoken('sm_size', 'sm_dig')
    me_size, me_dig = v.size('me_size'), v.dig('me_dig')
    top = entry_slot(v, 'ea', 'a', tags=a_tags)
    top.append(mk('MANIFEST', 'sub/Manifest', me_size, MD5=digest_for('MD5', me_dig)))
    top.append(mk('DATA', 'subx/d', 3, MD5=digest_for('MD5', 'D')))
    fs.add_manifest('sub/Manifest', entry_slot(v, 'ec', 'c', tags=c_tags), size=sm_size,
                    digest=sm_dig)
    fs.add_manifest('Manifest', top)
    c.path = pick(('', 'sub', 'subx'), v.choice('vp', 3))
    um, lm = v.bool('use_mtime'), v.int('last_mtime')
    c.last_mtime = lm if um else None
    return c


def s_ign(v):
    """IGNORE on a directory / nested directory; look-alike names next to it; a stray file
    inside the ignored subtree and inside the look-alike."""
    c = Ctx()
    fs = c.fs = ModelFS()
    fs.add_dir('sub')
    fs.add_dir('sub/deep')
    fs.add_dir('subx')
    ign = pick(('sub', 'sub/deep', 'su', 'sub/de', 'subx'), v.choice('ign', 5))
    x1 = file_slot(v, fs, 'sub/s', 's', kinds=('absent', 'file'))
    x2 = file_slot(v, fs, 'sub/deep/t', 't', kinds=('absent', 'file'))
    x3 = file_slot(v, fs, 'subx/u', 'u', kinds=('absent', 'file'))
    top = [mk('IGNORE', ign)]
    top += entry_slot(v, 'es', 'sub/s', tags=('DATA',))
    top += entry_slot(v, 'eu', 'subx/u', tags=('DATA',))
    fs.add_manifest('Manifest', top)
    c.path = pick(('', 'sub', 'subx'), v.choice('vp', 3))
    c.last_mtime = None
    return c


def s_dup(v):
    """one file listed twice in one Manifest and once more in the child Manifest's parent"""
    c = Ctx()
    fs = c.fs = ModelFS()
    fs.add_dir('sub')
    file_slot(v, fs, 'sub/c', 'c', kinds=('absent', 'file'))
    top = entry_slot(v, 'e1', 'sub/c', tags=('DATA', 'MISC', 'EBUILD'), two_hashes=True)
    sub = entry_slot(v, 'e2', 'c', tags=('DATA', 'MISC', 'EBUILD'))
    fs.add_manifest('sub/Manifest', sub, size=9, digest='S')
    top.append(mk('MANIFEST', 'sub/Manifest', 9, MD5=digest_for('MD5', 'S')))
    fs.add_manifest('Manifest', top)
    c.path = pick(('', 'sub'), v.choice('vp', 2))
    c.last_mtime = None
    return c


def s_odd(v):
    """awkward names, hidden files (listed and not), directory in place of a listed file"""
    c = Ctx()
    fs = c.fs = ModelFS()
    names = ('with space', 'back\\slash', 'nb sp', '\U0001f600', '-dash')
    n = pick(names, v.choice('name', len(names)))
    file_slot(v, fs, n, 'f')
    hk = file_slot(v, fs, '.hid', 'h', kinds=('absent', 'file'))
    fs.add_dir('.hdir')
    fs.add_file('.hdir/stray', size=1, digest='x')
    top = entry_slot(v, 'ef', n, tags=('DATA', 'IGNORE'))
    top += entry_slot(v, 'eh', '.hid', tags=('DATA',))
    fs.add_manifest('Manifest', top)
    c.path = ''
    c.last_mtime = None
    return c


def s_multi(v):
    """two Manifests in the top directory (Manifest referencing Manifest.files.gz, which
    lists files of the top and of a sub-directory that has no Manifest of its own)"""
    c = Ctx()
    fs = c.fs = ModelFS()
    file_slot(v, fs, 'b', 'b', kinds=('absent', 'file'))
    fs.add_dir('sub')
    file_slot(v, fs, 'sub/c', 'c', kinds=('absent', 'file'))
    fs.add_file('a', size=1, digest='A')
    f_size, f_dig = v.filetoken('mf_size', 'mf_dig')
    l_size, l_dig = v.size('ml_size'), v.dig('ml_dig')
    second = entry_slot(v, 'eb', 'b', tags=('DATA', 'IGNORE')) \
        + entry_slot(v, 'ec', 'sub/c', tags=('DATA', 'MISC'))
    fs.add_manifest('Manifest.files.gz', second, size=f_size, digest=f_dig)
    top = [mk('DATA', 'a', 1, MD5=digest_for('MD5', 'A')),
           mk('MANIFEST', 'Manifest.files.gz', l_size, MD5=digest_for('MD5', l_dig))]
    fs.add_manifest('Manifest', top)
    c.path = pick(('', 'sub'), v.choice('vp', 2))
    c.last_mtime = None
    return c


def s_symlink(v):
    """file symlink with an entry, directory symlink to a sibling whose files are reached
    under the link's path, dangling symlink with or without entry"""
    c = Ctx()
    fs = c.fs = ModelFS()
    file_slot(v, fs, 'a', 'a', kinds=('absent', 'file'))
    fs.add_symlink('lnk', 'a')
    fs.add_dir('sub')
    file_slot(v, fs, 'sub/c', 'c', kinds=('absent', 'file'))
    fs.add_symlink('dl', 'sub')
    fs.add_symlink('dang', 'nowhere')
    top = entry_slot(v, 'ea', 'a', tags=('DATA',))
    top += entry_slot(v, 'el', 'lnk', tags=('DATA', 'IGNORE'))
    top += entry_slot(v, 'ec', 'sub/c', tags=('DATA',))
    top += entry_slot(v, 'ed', 'dl/c', tags=('DATA',))
    top += entry_slot(v, 'eg', 'dang', tags=('DATA',))
    fs.add_manifest('Manifest', top)
    c.path = pick(('', 'dl'), v.choice('vp', 2))
    c.last_mtime = None
    return c


STRAY_NAMES = ('Manifest', 'Manifest.gz', 'x', 'Manifest.files', 'manifest', '.Manifest')
TOP_NAMES = ('Manifest', 'Manifest.gz')


def s_stray(v):
    """a file without entry, named like a Manifest, in the top or in a sub-directory; the
    top-level Manifest named Manifest or Manifest.gz"""
    c = Ctx()
    fs = c.fs = ModelFS()
    c.top = TOP_NAMES[v.choice('top', 2)]
    name = STRAY_NAMES[v.choice('stray_name', len(STRAY_NAMES))]
    where = ('', 'sub', 'sub/deep')[v.choice('stray_dir', 3)]
    fs.add_file('sub/deep/f', size=1, digest='f')
    ents = [mk('DATA', 'sub/deep/f', 1, MD5=digest_for('MD5', 'f'))]
    sp = posixpath.join(where, name)
    c.stray = None
    present = v.bool('stray_present')
    if sp != c.top and present:
        fs.add_file(sp, size=2, digest='s')
        c.stray = sp
    fs.add_manifest(c.top, ents)
    c.path = ('', 'sub')[v.choice('vp', 2)]
    c.last_mtime = None
    return c


def run_verify_top(c):
    return tree.run_verify(tree.world(c), c.top, c.path, c.last_mtime)


def judge_verify_top(c, out):
    o = tree.oracle_verify(c.fs, c.top, c.path, c.last_mtime, first_only=True)
    exp = tree.expected_outcomes(o)
    return out in exp, exp == ('mismatch',)


def run_verify(c):
    return tree.run_verify(tree.world(c), 'Manifest', c.path, c.last_mtime)


def judge_verify(c, out):
    o = tree.oracle_verify(c.fs, 'Manifest', c.path, c.last_mtime, first_only=True)
    if o.dontcare:
        return True, False
    exp = tree.expected_outcomes(o)
    return out in exp, (exp == ('mismatch',) and not o.chain_error)


def m_conditions(tier):
    cs = []
    bnd = ('S-nest: Manifest, a, sub/{Manifest,c}, subx/d; symbolic kind/size/digest/mtime of '
           'a and sub/c, entry presence/tag/size/digest, sub-Manifest link (size,digest on '
           'both sides), verified path in {"", sub, subx}, last_mtime None or any int; ')
    D = ('DATA',)
    if tier == 'quick':
        plans = [('A', ETAGS, D, C_OK, [('a_kind', range(3)), ('ea_present', (False, True))]),
                 ('B', D, ETAGS, A_OK, [('c_kind', range(3)), ('ec_present', (False, True))]),
                 ('C', D, D, None, [('a_kind', range(3)), ('ea_present', (False, True)),
                                    ('c_kind', range(3)), ('ec_present', (False, True))])]
    else:
        plans = [('F', ETAGS, ETAGS, None,
                  [('a_kind', range(3)), ('ea_present', (False, True)),
                   ('c_kind', range(3)), ('ec_present', (False, True)),
                   ('ea_tag', range(5)), ('ec_tag', range(5))])]
    for pname, at, ct, consts, parts in plans:
        sc = make_s_nest(at, ct, consts)
        for fx in partitions(parts):
            if not fx.get('ea_present', True) and fx.get('ea_tag', 0) != 0:
                continue
            if not fx.get('ec_present', True) and fx.get('ec_tag', 0) != 0:
                continue
            nm = 'm_nest%s_' % pname + '_'.join(
                f'{k.replace("_", "")[:4]}{int(x)}' for k, x in fx.items())
            cs.append(make_cond(
                nm, sc, run_verify, judge_verify, fx, timeout=300, group='M-nest',
                twin=(fx.get('a_kind', 1) == 1 and fx.get('ea_present', True)
                      and fx.get('c_kind', 1) == 1 and fx.get('ec_present', True)
                      and fx.get('ea_tag', 0) < 3 and fx.get('ec_tag', 0) < 3),
                descr='real assert_directory_verifies on the S-nest model vs set-based '
                      'oracle', bounds=bnd + f'tags(a) in {at}, tags(c) in {ct}'
                       + (f'; fixed consistent: {sorted(consts)}' if consts else '')))
    others = [
        ('m_ign', s_ign, [('ign', range(5)), ('vp', range(3))], 'S-ign: IGNORE on sub | '
         'sub/deep | su | sub/de | subx with files sub/s, sub/deep/t, subx/u (each absent or '
         'a symbolic regular file) and optional DATA entries for sub/s and subx/u; verified '
         'path in {"", sub, subx}'),
        ('m_dup', s_dup, [('e1_present', (False, True)), ('e2_present', (False, True)),
                          ('c_kind', range(2))], 'S-dup: sub/c listed in the top Manifest '
         '(2 hashes) and in sub/Manifest (1 hash), tags in DATA/MISC/EBUILD, sizes and '
         'digests symbolic'),
        ('m_odd', s_odd, [('name', range(5)), ('f_kind', range(3))], 'S-odd: names with '
         'space, backslash, U+00A0, U+1F600, leading dash; hidden file listed or not; '
         'hidden directory with a stray; directory in place of a listed file'),
    ]
    for nm0, sc, parts, bnd in others:
        for fx in partitions(parts):
            nm = nm0 + '_' + '_'.join(f'{k.replace("_", "")[:4]}{int(x)}'
                                      for k, x in fx.items())
            cs.append(make_cond(nm, sc, run_verify, judge_verify, fx, timeout=300,
                                group='M-' + nm0[2:], twin=False,
                                descr='real assert_directory_verifies on the model vs '
                                      'set-based oracle', bounds=bnd))
    for fx in partitions([('b_kind', range(2)), ('c_kind', range(2)),
                          ('eb_present', (False, True)), ('ec_present', (False, True))]):
        nm = 'm_multi_' + ''.join(str(int(x)) for x in fx.values())
        cs.append(make_cond(nm, s_multi, run_verify, judge_verify, fx, timeout=300,
                            group='M-multi', twin=False,
                            descr='two Manifests in one directory (Manifest -> '
                                  'Manifest.files.gz, link symbolic on both sides), entries '
                                  'for a top-level and a sub-directory file in the second one',
                            bounds='2 symbolic files, 2 entry slots, symbolic link'))
    for fx in partitions([('a_kind', range(2)), ('c_kind', range(2)), ('vp', range(2)),
                          ('ed_present', (False, True))]):
        nm = 'm_symlink_' + ''.join(str(int(x)) for x in fx.values())
        cs.append(make_cond(nm, s_symlink, run_verify, judge_verify, fx, timeout=300,
                            group='M-symlink', twin=False,
                            descr='file symlink (listed or IGNOREd), directory symlink to a '
                                  'sibling directory (its file reached as dl/c, listed or '
                                  'not), dangling symlink (listed or not)',
                            bounds='2 symbolic files, 5 entry slots, verified path "" or the '
                                   'link'))
    for fx in partitions([('top', range(2)), ('stray_dir', range(3))]):
        nm = f'm_stray_t{fx["top"]}_d{fx["stray_dir"]}'
        cs.append(make_cond(nm, s_stray, run_verify_top, judge_verify_top, fx, timeout=300,
                            group='M-stray', twin=(fx['stray_dir'] == 1),
                            descr='a stray file named like a Manifest (Manifest, Manifest.gz, '
                                  'Manifest.files, manifest, .Manifest, x) in the top, a sub- '
                                  'or a sub-sub-directory; top-level Manifest plain or .gz',
                            bounds='6 names x 3 places x 2 top-level names x verified path'))
    return cs


def validate(seed, tier):
    from vf.scen import validate_against_real
    cs = [c for c in conditions('quick') if c.name.startswith('m_')]
    return validate_against_real(cs, seed, per_cond=1, limit=30)
