"""C01 - recursive verification accepts exactly the trees that match their Manifests."""
from vf.engine import Cond, specialise
from vf import venv_verify as ve

import gemato.verify as gv
from gemato.exceptions import ManifestCrossDevice
from gemato.manifest import new_manifest_entry
from gemato.util import path_starts_with, path_inside_dir

PROPERTY = 'C01'
FILE_TAGS = ('DATA', 'MISC', 'EBUILD', 'AUX', 'MANIFEST')
HN = ('MD5', 'SHA1')
HL = ('md5', 'sha1')


def mk_entry(etag, esize, nck, e1, e2, path='f'):
    if etag == 0:
        return None
    if etag == 1:
        return new_manifest_entry('IGNORE', path)
    ck = {}
    if nck >= 1:
        ck[HN[0]] = e1
    if nck >= 2:
        ck[HN[1]] = e2
    return new_manifest_entry(FILE_TAGS[etag - 2], path, esize, ck)


# ---------------------------------------------------------------------------------------
# K1: the per-file rule (real verify_path over real get_file_metadata)

def k1_pre(kind: int, etag: int, esize: int, nck: int, e1: str, e2: str, st_size: int,
           true_size: int, mtime: int, g1: str, g2: str, use_mtime: bool,
           last_mtime: int, use_dev: bool, dev: int, expected_dev: int) -> bool:
    return (0 <= kind <= 6 and 0 <= etag <= 6 and 0 <= nck <= 2 and esize >= 0
            and true_size >= 0 and (st_size == true_size or st_size == 0)
            and len(e1) <= 1 and len(e2) <= 1 and len(g1) <= 1 and len(g2) <= 1)


def k1_verify_path(kind: int, etag: int, esize: int, nck: int, e1: str, e2: str,
                   st_size: int, true_size: int, mtime: int, g1: str, g2: str,
                   use_mtime: bool, last_mtime: int, use_dev: bool, dev: int,
                   expected_dev: int):
    e = mk_entry(etag, esize, nck, e1, e2)
    f = ve.OneFile(ve.KINDS[kind], dev=dev, st_size=st_size, mtime=mtime,
                   true_size=true_size, digests={HL[0]: g1, HL[1]: g2})
    raised = None
    with ve.Installed(f):
        try:
            ret, diff = gv.verify_path('/r/f', e,
                                       expected_dev=expected_dev if use_dev else None,
                                       last_mtime=last_mtime if use_mtime else None)
        except ManifestCrossDevice:
            raised = 'xdev'
    # (descriptor hygiene is deliberately not asserted: the statement of C01/C06 does not
    # cover it; verify_path does leak the descriptor on early return - see DESIGN.md par.7)
    fds_ok = True
    exists = kind != 0
    if etag == 1:
        return raised is None and ret is True and fds_ok and not f.hashed, False
    if etag == 0:
        return raised is None and ret == (not exists) and fds_ok, False
    if not exists:
        return raised is None and ret is False and fds_ok, False
    if use_dev and dev != expected_dev:
        return raised == 'xdev' and fds_ok, False
    if raised is not None:
        return False, True
    if kind != 1:
        return ret is False and fds_ok, False
    full = (true_size == esize and (nck < 1 or e1 == g1) and (nck < 2 or e2 == g2))
    may_skip = (use_mtime and mtime <= last_mtime and true_size == esize
                and st_size == esize and st_size != 0)
    interesting = (not full) and true_size == esize
    if ret == full:
        return fds_ok and (bool(diff) == (not ret)), interesting
    return (ret is True and may_skip and fds_ok), interesting


# ---------------------------------------------------------------------------------------
# K2: component-wise prefix matching (IGNORE and Manifest scoping rest on it)

def _components_prefix(path: str, prefix: str) -> bool:
    """Reference: the components of prefix are a leading run of the components of path."""
    if prefix == '':
        return True
    pc = path.split('/')
    qc = prefix.split('/')
    return len(qc) <= len(pc) and pc[:len(qc)] == qc


def _normalised(p: str) -> bool:
    # what every caller passes: results of os.path.join/relpath/dirname on relative paths
    return not p.startswith('/') and not p.endswith('/') and '//' not in p


def make_k2(np_, nq):
    def pre(path: str, prefix: str) -> bool:
        return (len(path) <= np_ and len(prefix) <= nq and _normalised(path)
                and _normalised(prefix))

    def k2_path_starts_with(path: str, prefix: str):
        exp = _components_prefix(path, prefix)
        got = path_starts_with(path, prefix)
        # documented alternative form of the prefix: with a trailing slash
        got2 = path_starts_with(path, prefix + '/') if prefix else got
        return (got == exp and got2 == exp), (exp and prefix != '' and path != prefix)

    def k2_path_inside_dir(path: str, prefix: str):
        exp = _components_prefix(path, prefix) and path != prefix and path != ''
        got = path_inside_dir(path, prefix)
        return got == exp, (exp and prefix != '')
    return pre, k2_path_starts_with, k2_path_inside_dir


# ---------------------------------------------------------------------------------------
# K3: compatibility of duplicate entries

def k3_pre(t1: int, t2: int, s1: int, s2: int, p2a: bool, p2b: bool,
           a1: str, b1: str, a2: str, b2: str) -> bool:
    return (0 <= t1 <= 4 and 0 <= t2 <= 4 and s1 >= 0 and s2 >= 0
            and len(a1) <= 1 and len(b1) <= 1 and len(a2) <= 1 and len(b2) <= 1)


def make_k3(p1a, p1b):
    def k3_entry_compat(t1: int, t2: int, s1: int, s2: int, p2a: bool,
                        p2b: bool, a1: str, b1: str, a2: str, b2: str):
        return _k3(t1, t2, s1, s2, p1a, p1b, p2a, p2b, a1, b1, a2, b2)
    return k3_entry_compat


def _k3(t1, t2, s1, s2, p1a, p1b, p2a, p2b, a1, b1, a2, b2):
    c1, c2 = {}, {}
    if p1a:
        c1[HN[0]] = a1
    if p1b:
        c1[HN[1]] = b1
    if p2a:
        c2[HN[0]] = a2
    if p2b:
        c2[HN[1]] = b2
    x = new_manifest_entry(FILE_TAGS[t1], 'f', s1, c1)
    y = new_manifest_entry(FILE_TAGS[t2], 'f', s2, c2)
    ret, diff = gv.verify_entry_compatibility(x, y)
    compat_tags = ('MANIFEST', 'DATA', 'EBUILD', 'AUX')
    tags_ok = t1 == t2 or (FILE_TAGS[t1] in compat_tags and FILE_TAGS[t2] in compat_tags)
    clash = (p1a and p2a and a1 != a2) or (p1b and p2b and b1 != b2)
    exp = tags_ok and s1 == s2 and not clash
    ok = ret == exp
    if ok and exp:
        # the diff must carry exactly the hashes present on one side only, with the value
        only = {}
        if p1a != p2a:
            only[HN[0]] = (a1 if p1a else None, a2 if p2a else None)
        if p1b != p2b:
            only[HN[1]] = (b1 if p1b else None, b2 if p2b else None)
        got = {k: (v1, v2) for k, v1, v2 in diff}
        ok = got == only
    return ok, (exp and p1a != p2a)


def conditions(tier):
    cs = [
    ]
    for etag in range(7):
        cs.append(Cond(
            f'k1_verify_path_e{etag}', specialise(k1_verify_path, etag=etag),
            specialise(k1_pre, etag=etag), timeout=150, group='K1', twin=(etag >= 2),
            descr='real verify_path+get_file_metadata vs per-file rule; all attributes '
                  f'symbolic; entry = {(("none", "IGNORE") + FILE_TAGS)[etag]}',
            bounds='7 object kinds; unbounded ints; digests: any str of len<=1; '
                   '<=2 hash names; st_size in {true size, 0}; last_mtime None or any int; '
                   'expected_dev None or any int'))
    for p1a in (False, True):
        for p1b in (False, True):
            cs.append(Cond(
                f'k3_entry_compat_{int(p1a)}{int(p1b)}', make_k3(p1a, p1b), k3_pre,
                timeout=150, group='K3',
                descr='verify_entry_compatibility on two symbolic file entries '
                      f'(first entry has MD5:{p1a} SHA1:{p1b})',
                bounds='5 file tags x 5; 2 hash names with presence bits; unbounded '
                       'sizes; digests any str of len<=1'))
    np_, nq = (4, 3) if tier == 'quick' else (6, 4)
    pre, a, b = make_k2(np_, nq)
    cs.append(Cond('k2_path_starts_with', a, pre, timeout=90 if tier == 'quick' else 900,
                   group='K2', descr='path_starts_with vs component-prefix reference',
                   bounds=f'|path|<={np_}, |prefix|<={nq}, all code points, normalised'))
    cs.append(Cond('k2_path_inside_dir', b, pre, timeout=90 if tier == 'quick' else 900,
                   group='K2', descr='path_inside_dir vs component-prefix reference',
                   bounds=f'|path|<={np_}, |prefix|<={nq}, all code points, normalised'))
    return cs
