"""
Core of the /verif machinery: one *condition* = one bounded symbolic-execution query.

A condition is a Python callable ``body(**symbolic primitives) -> (ok, interesting)`` that
runs real gemato code (imported from /repo at run time) on its arguments and compares with
an oracle.  CrossHair executes ``body`` symbolically: every argument is an SMT variable, every
branch on it forks the path, z3 decides feasibility.  The verdict for the condition is

  CONFIRMED   the path tree was exhausted and ``ok`` was true on every path
  REFUTED     z3 produced a model (concrete arguments) with ``ok`` false / an exception
  UNKNOWN     anything else (timeout, solver 'unknown', unmet precondition) = inconclusive

``interesting`` marks that the path reached the branch of the oracle the condition is about;
the *reachability twin* asks CrossHair to confirm ``not interesting`` and must be REFUTED,
otherwise the condition is vacuous (harness error).

Conditions are built directly as crosshair ``Conditions`` objects (no docstring parsing), so
harness functions can be generated/partitioned programmatically.
"""
import collections
import dataclasses
import inspect
import json
import os
import sys
import time
import traceback
from typing import Callable, Optional, Sequence


@dataclasses.dataclass
class Cond:
    name: str
    body: Callable                      # (**args) -> (ok, interesting) | bool
    pre: Optional[Callable] = None      # (**args) -> bool
    timeout: float = 60.0               # CPU seconds for CrossHair (per condition)
    descr: str = ''
    bounds: str = ''
    # optional: (args dict) -> dict(reproduced=bool, detail=...) run in a fresh plain process
    replay_real: Optional[Callable] = None
    # id -> predicate(**args): region of the argument space occupied by a finding.  Only
    # regions whose id is listed with status "known" in /verif/known_findings.json are
    # excluded from the search (so that the rest of the space is still exhausted); an id
    # that is not listed, or listed as "fixed", excludes nothing.
    known_regions: Optional[dict] = None
    twin: bool = True                   # run a reachability twin
    group: str = ''                     # free-form tag used in evidence

    def params(self):
        return list(inspect.signature(self.body).parameters)


def specialise(fn, **fixed):
    """Partition helper: a new function with the parameters in `fixed` bound to concrete
    values and the remaining (annotated) parameters kept, so that CrossHair sees a smaller
    signature.  The union of the partitions is the claimed domain."""
    sig = inspect.signature(fn)
    rest = [p for p in sig.parameters.values() if p.name not in fixed]
    for k in fixed:
        assert k in sig.parameters, k
    ns = {'_fn': fn, '_fixed': dict(fixed)}
    for p in rest:
        ns['_t_' + p.name] = p.annotation
    params = ', '.join(f'{p.name}: _t_{p.name}' for p in rest)
    call = ', '.join(f'{p.name}={p.name}' for p in rest)
    src = f'def _w({params}):\n    return _fn({call}{", " if call else ""}**_fixed)\n'
    exec(src, ns)
    w = ns['_w']
    w.__name__ = w.__qualname__ = fn.__name__
    w.__module__ = fn.__module__
    w.__vf_src__ = fn
    return w


def _norm(ret):
    if isinstance(ret, tuple):
        return ret[0], ret[1]
    return ret, True


def run_concrete(cond: Cond, args: dict):
    """Plain-Python run of the harness body (stage-1 replay, model validation)."""
    if cond.pre is not None and not cond.pre(**args):
        return {'pre': False}
    try:
        ok, interesting = _norm(cond.body(**args))
        return {'pre': True, 'ok': bool(ok), 'interesting': bool(interesting)}
    except BaseException as e:
        if type(e).__name__ != 'SeamBypassed':
            if not isinstance(e, Exception):
                raise
            return {'pre': True, 'ok': False, 'interesting': True,
                    'exception': f'{type(e).__name__}: {e}',
                    'traceback': traceback.format_exc(limit=12)}
        return {'pre': True, 'ok': True, 'interesting': False,
                'harness_error': f'SeamBypassed: {e}'}
    except Exception as e:  # noqa: the harness lets unexpected exceptions escape on purpose
        return {'pre': True, 'ok': False, 'interesting': True,
                'exception': f'{type(e).__name__}: {e}',
                'traceback': traceback.format_exc(limit=12)}


_ROOT = os.path.dirname(os.path.dirname(os.path.abspath(__file__)))


def known_ids():
    path = os.path.join(_ROOT, 'known_findings.json')
    if not os.path.exists(path):
        return set()
    with open(path) as f:
        return {k['id'] for k in json.load(f)['findings'] if k.get('status') == 'known'}


def region_of(cond, args):
    for k, p in (cond.known_regions or {}).items():
        try:
            if p(**args):
                return k
        except Exception:
            pass
    return None


class _Z3Stats:
    calls = 0
    secs = 0.0
    unknown = 0


def _instrument_z3():
    import z3
    orig = z3.Solver.check

    def check(self, *a, **kw):
        t = time.perf_counter()
        try:
            r = orig(self, *a, **kw)
            if str(r) == 'unknown':
                _Z3Stats.unknown += 1
            return r
        finally:
            _Z3Stats.calls += 1
            _Z3Stats.secs += time.perf_counter() - t
    z3.Solver.check = check


def analyze(cond: Cond, mode: str = 'main', timeout: Optional[float] = None,
            per_path_timeout: Optional[float] = None) -> dict:
    """Run CrossHair on one condition in this process and return a JSON-able verdict."""
    from crosshair.core_and_libs import run_checkables  # noqa: F401 (registers lib impls)
    from crosshair.core import ConditionCheckable
    from crosshair.condition_parser import (Conditions, ConditionExpr, POSTCONDITION,
                                            PRECONDITION)
    from crosshair.fnutil import FunctionInfo, resolve_signature
    from crosshair.options import AnalysisOptionSet, DEFAULT_OPTIONS
    from crosshair.statespace import MessageType

    _instrument_z3()
    body = cond.body
    names = cond.params()
    src_body = getattr(body, '__vf_src__', body)
    try:
        fname = inspect.getsourcefile(src_body) or '<harness>'
        line = inspect.getsourcelines(src_body)[1]
    except (OSError, TypeError):
        fname, line = '<harness>', 0

    if mode == 'main':
        def fn(*a, **kw):
            return _norm(body(*a, **kw))[0]
        post_src = 'ok'
    else:
        def fn(*a, **kw):
            return not _norm(body(*a, **kw))[1]
        post_src = 'not interesting'
    fn.__name__ = fn.__qualname__ = cond.name
    fn.__module__ = body.__module__
    fn.__wrapped__ = body
    sig = resolve_signature(body)
    assert not isinstance(sig, str), sig
    sig = sig.replace(return_annotation=bool)

    pre = []
    excluded = [p for k, p in (cond.known_regions or {}).items() if k in known_ids()]
    # inputs already decided concretely (a model value of an earlier run that did not
    # reproduce on the real code) are taken out of the symbolic search
    for pt in json.loads(os.environ.get('VF_EXCLUDE_POINTS', '[]')):
        excluded.append(lambda _pt=pt, **kw: all(kw[k] == v for k, v in _pt.items()))
    if excluded and mode == 'main':
        base_pre = cond.pre

        def prefn(**kw):
            if base_pre is not None and not base_pre(**kw):
                return False
            for p in excluded:
                if p(**kw):
                    return False
            return True
        pre.append(ConditionExpr(
            PRECONDITION, lambda v: prefn(**{k: v[k] for k in names}), fname, line, 'pre'))
    elif cond.pre is not None:
        prefn = cond.pre
        pre.append(ConditionExpr(
            PRECONDITION, lambda v: prefn(**{k: v[k] for k in names}), fname, line, 'pre'))
    post = [ConditionExpr(POSTCONDITION, lambda v: v['__return__'], fname, line, post_src)]

    cex = {}

    def describe(bound, ret, reprs):
        cex['args'] = dict(bound.arguments)
        cex['ret'] = repr(ret)
        return (cond.name + '(' + json.dumps(cex['args'], default=repr) + ')', repr(ret))

    conditions = Conditions(fn, fn, pre, post, frozenset(), sig, None, [],
                            counterexample_description_maker=describe)
    stats = collections.Counter()
    t_cpu = timeout if timeout is not None else cond.timeout
    opts = DEFAULT_OPTIONS.overlay(AnalysisOptionSet(
        per_condition_timeout=t_cpu, report_all=True, stats=stats,
        per_path_timeout=per_path_timeout,
        max_uninteresting_iterations=sys.maxsize))
    t0 = time.time()
    c0 = time.process_time()
    msgs = list(ConditionCheckable(FunctionInfo.from_fn(fn), opts, conditions).analyze())
    res = {
        'cond': cond.name, 'mode': mode,
        'paths': int(stats.get('num_paths', 0)),
        'z3_calls': _Z3Stats.calls, 'z3_s': round(_Z3Stats.secs, 3),
        'z3_unknown': _Z3Stats.unknown,
        'wall_s': round(time.time() - t0, 2), 'cpu_s': round(time.process_time() - c0, 2),
        'timeout_s': t_cpu,
    }
    status, detail = 'UNKNOWN', ''
    for m in msgs:
        if m.state == MessageType.CONFIRMED:
            status = 'CONFIRMED'
        elif m.state in (MessageType.POST_FAIL, MessageType.EXEC_ERR, MessageType.POST_ERR):
            status, detail = 'REFUTED', m.message
            res['kind'] = m.state.name
            if m.traceback:
                res['traceback'] = m.traceback[-2000:]
            break
        elif m.state == MessageType.PRE_UNSAT:
            status, detail = 'UNKNOWN', 'PRE_UNSAT: ' + m.message
        else:
            status, detail = 'UNKNOWN', m.message
    res['status'] = status
    res['detail'] = detail[:1500]
    if status == 'REFUTED':
        res['args'] = cex.get('args')
    return res


def load_conditions(modname: str, tier: str) -> Sequence[Cond]:
    import importlib
    mod = importlib.import_module(modname)
    return mod.conditions(tier)


def _jsonable(o):
    try:
        json.dumps(o)
        return o
    except (TypeError, ValueError):
        return repr(o)


def main(argv):
    """worker: python -m vf.engine <module> <tier> <cond> <main|twin|concrete> [json args]"""
    modname, tier, cname, mode = argv[1:5]
    conds = {c.name: c for c in load_conditions(modname, tier)}
    cond = conds[cname]
    if mode == 'concrete':
        args = json.loads(argv[5])
        funcs = set()
        if os.environ.get('VF_TRACE'):
            # record which functions of /repo's gemato the harness really enters
            def prof(frame, event, arg):
                if event == 'call':
                    fn = frame.f_code.co_filename
                    if '/gemato/' in fn and '/verif/' not in fn:
                        funcs.add(os.path.basename(fn)[:-3] + '.' + frame.f_code.co_qualname)
            sys.setprofile(prof)
        out = run_concrete(cond, args)
        sys.setprofile(None)
        if funcs:
            out['functions'] = sorted(funcs)
        if cond.replay_real is not None and not out.get('ok', True):
            try:
                out['real'] = cond.replay_real(args)
            except Exception as e:
                out['real'] = {'reproduced': False,
                               'error': f'{type(e).__name__}: {e}',
                               'traceback': traceback.format_exc(limit=12)}
        print('RESULT ' + json.dumps(out, default=repr))
        return 0
    timeout = float(os.environ.get('VF_TIMEOUT_OVERRIDE', 0)) or None
    if mode == 'twin':
        timeout = min(timeout or cond.timeout, 120.0)
    try:
        res = analyze(cond, mode, timeout)
    except BaseException as e:  # crosshair internal error = inconclusive, reported as such
        res = {'cond': cname, 'mode': mode, 'status': 'ERROR', 'paths': 0, 'z3_calls': 0,
               'z3_s': 0.0, 'detail': f'{type(e).__name__}: {e}',
               'traceback': traceback.format_exc(limit=20)}
    if res.get('args') is not None:
        res['args'] = {k: _jsonable(v) for k, v in res['args'].items()}
    print('RESULT ' + json.dumps(res, default=repr))
    return 0


if __name__ == '__main__':
    sys.exit(main(sys.argv))
