"""
Materialise a (concrete) ModelFS as a real directory tree and run the *unpatched* gemato on
it: stage 2 of counterexample replay and the model-validation runs.

Content of a regular file with token t and model size s is enc4(t) repeated s times (real
size 4*s), so that two files are byte-identical iff their (token, size) agree - the model's
notion of equal digests, given the real-world invariant "an empty file has the digest of
the empty string" (scenarios assume it: size 0 => token 'E').  Entries get the real digests
of the content they stand for; a Manifest file is the real text dump (really compressed when
its name says so) and a MANIFEST entry in the parent carries the true size/digests exactly
when the model says the link matches, deliberately wrong values otherwise.
"""
import hashlib
import os
import posixpath
import shutil
import socket
import tempfile

from vf import modelfs

EMPTY = 'E'
MH = {'MD5': 'md5', 'SHA1': 'sha1', 'SHA256': 'sha256', 'SHA512': 'sha512',
      'BLAKE2B': 'blake2b'}


class NotMaterialisable(Exception):
    pass


def enc4(tok):
    assert isinstance(tok, str) and len(tok) == 1, repr(tok)
    return tok.encode('utf-32-le', 'surrogatepass')


def content(tok, size):
    if size == 0:
        return b''
    if size > 4096:
        raise NotMaterialisable(f'size {size} too large to materialise')
    return enc4(tok) * size


def tok_of(value):
    """model digest value -> (prefix, token)"""
    return value[0], value[1:]


def real_digest(mhash, tok, size):
    if size == 0 and tok != EMPTY:
        data = b'tok:' + enc4(tok)          # a (wrong) digest that is not the empty one
    else:
        data = content(tok, size)
    return hashlib.new(MH[mhash], data).hexdigest()


class RealWorld:
    """Same interface as the part of ModelFS the run functions use: .root, .installed()."""

    def __init__(self, fs, keep=False):
        self.fs = fs
        self.root = self.root_path = None
        self.keep = keep

    def installed(self):
        return self

    def __enter__(self):
        modelfs.uninstall_global()
        if self.root is not None:
            self._order_walk()
            return self          # already materialised: later phases see earlier writes
        base = os.environ.get('TMPDIR', '/tmp')
        self.tmp = tempfile.mkdtemp(prefix='vf-real-', dir=base)
        self.root = self.root_path = os.path.join(self.tmp, 'r')
        os.mkdir(self.root)
        self.manifest_real = {}
        self._dir(self.fs.root, self.root, '')
        self._order_walk()
        return self

    def __exit__(self, *a):
        import gemato.recursiveloader as g_rl
        if getattr(self, '_saved_os', None) is not None:
            g_rl.os = self._saved_os
            self._saved_os = None
        return False

    def _order_walk(self):
        """Directory enumeration order is arbitrary on a real filesystem; the replay uses
        the order of the model instance (any order is a possible real behaviour), so that a
        counterexample that depends on the order reproduces."""
        import gemato.recursiveloader as g_rl
        world = self

        class _OrderedOs:
            def __getattr__(self, name):
                return getattr(os, name)

            @staticmethod
            def walk(top, **kw):
                for dirpath, dirnames, filenames in os.walk(top, **kw):
                    rel = os.path.relpath(dirpath, world.root)
                    try:
                        node = world.fs.lookup(posixpath.join(
                            modelfs.ROOT, '' if rel == '.' else rel))
                    except OSError:
                        node = None
                    if node is not None and node.kind == 'dir':
                        order = {n: i for i, n in enumerate(node.children)}
                        dirnames.sort(key=lambda n: (order.get(n, 10 ** 6), n))
                        filenames.sort(key=lambda n: (order.get(n, 10 ** 6), n))
                    yield dirpath, dirnames, filenames
        self._saved_os = g_rl.os
        g_rl.os = _OrderedOs()

    def close(self):
        if self.root is not None and not self.keep:
            shutil.rmtree(self.tmp, ignore_errors=True)
        self.root = self.root_path = None

    # -- writing ------------------------------------------------------------------
    def _dir(self, node, real, rel):
        if node.dev != 1:
            raise NotMaterialisable('device ids cannot be materialised')
        # children that are Manifests are written after everything below this directory,
        # and a Manifest referencing another one in the same directory after that one
        later = []
        for name, ch in node.children.items():
            p = os.path.join(real, name)
            r = posixpath.join(rel, name)
            if ch.kind == 'dir':
                os.mkdir(p)
                self._dir(ch, p, r)
            elif ch.kind == 'symlink':
                tgt = os.path.relpath(os.path.join(self.root, ch.target),
                                      os.path.dirname(p))
                os.symlink(tgt, p)
                continue
            elif ch.kind == 'fifo':
                os.mkfifo(p)
            elif ch.kind == 'socket':
                s = socket.socket(socket.AF_UNIX)
                s.bind(p)
                s.close()
            elif ch.dev != 1:
                raise NotMaterialisable('device ids cannot be materialised')
            elif ch.kind == 'file' and ch.is_manifest:
                later.append((name, ch, p, r))
            elif ch.kind == 'file':
                if ch.st_size is not None:
                    raise NotMaterialisable('st_size override')
                with open(p, 'wb') as f:
                    f.write(content(ch.digest, ch.size))
                self._utime(p, ch.mtime)
            else:
                raise NotMaterialisable(ch.kind)
        # order: a Manifest is written after the Manifests it references in this directory
        done = set()
        progress = True
        while later and progress:
            progress = False
            for item in list(later):
                name, ch, p, r = item
                deps = [e.path for e in (ch.entries or []) if e.tag == 'MANIFEST'
                        and '/' not in e.path and e.path != name]
                if all(d in done or d not in [x[0] for x in later] for d in deps):
                    self._manifest(ch, p, r)
                    done.add(name)
                    later.remove(item)
                    progress = True
        for name, ch, p, r in later:
            self._manifest(ch, p, r)

    @staticmethod
    def _utime(p, mtime):
        if not isinstance(mtime, int) or not (0 <= mtime < 2 ** 31):
            raise NotMaterialisable(f'mtime {mtime!r}')
        os.utime(p, (mtime, mtime))

    def _real_entry(self, e, mdir_rel):
        from gemato.manifest import new_manifest_entry, ManifestEntryAUX
        if e.tag in ('IGNORE', 'TIMESTAMP'):
            return modelfs.copy_entry(e)
        ck = {}
        size = 4 * e.size
        if e.tag == 'MANIFEST':
            target = posixpath.normpath(posixpath.join(mdir_rel, e.path))
            node = None
            try:
                node = self.fs.lookup(posixpath.join(modelfs.ROOT, target))
            except OSError:
                pass
            real = self.manifest_real.get(target)
            if node is not None and real is not None:
                size = real['size'] if e.size == node.size else real['size'] + 1 + e.size
                for h, v in e.checksums.items():
                    if tok_of(v)[1] == node.digest:
                        ck[h] = real[h]
                    else:
                        ck[h] = hashlib.new(MH[h], b'bad:' + v.encode(
                            'utf-8', 'surrogatepass')).hexdigest()
                return new_manifest_entry('MANIFEST', e.path, size, ck)
        for h, v in e.checksums.items():
            ck[h] = real_digest(h, tok_of(v)[1], e.size)
        if e.tag == 'AUX':
            return ManifestEntryAUX(e.aux_path, size, ck)
        return new_manifest_entry(e.tag, e.path, size, ck)

    def _manifest(self, node, p, rel):
        from gemato.compression import open_potentially_compressed_path
        from gemato.manifest import ManifestFile
        mdir = posixpath.dirname(rel)
        if node.invalid or node.entries is None:
            with open(p, 'wb') as f:
                f.write(b'this is not a Manifest\n')
        else:
            mf = ManifestFile()
            mf.entries = [self._real_entry(e, mdir) for e in node.entries]
            with open_potentially_compressed_path(p, 'w', encoding='utf8') as f:
                mf.dump(f, sign_openpgp=False)
        self._utime(p, node.mtime)
        with open(p, 'rb') as f:
            data = f.read()
        info = {'size': len(data)}
        for h, hl in MH.items():
            info[h] = hashlib.new(hl, data).hexdigest()
        self.manifest_real[rel] = info


def readback(root, top_name='Manifest'):
    """Build a ModelFS from a real tree (after a real update): content tokens are derived
    from real digests, so that the model oracles can be evaluated on what is really on
    disk.  Entry checksum values are mapped to the token of the file whose real digest
    they equal (under that hash), or to a token that matches nothing."""
    from gemato.compression import (open_potentially_compressed_path,
                                    get_potential_compressed_names)
    from gemato.exceptions import GematoException
    from gemato.manifest import ManifestFile
    fs = modelfs.ModelFS()
    by_digest = {}          # (mhash, hexdigest) -> token
    pending = []
    mnames = set(get_potential_compressed_names('Manifest'))

    def scan(real, rel):
        for name in sorted(os.listdir(real)):
            p = os.path.join(real, name)
            r = posixpath.join(rel, name)
            if os.path.islink(p):
                tgt = os.path.relpath(os.path.realpath(p), root)
                fs.add_symlink(r, '' if tgt == '.' else tgt)
            elif os.path.isdir(p):
                fs.add_dir(r)
                scan(p, r)
            elif os.path.isfile(p):
                with open(p, 'rb') as f:
                    data = f.read()
                tok = hashlib.md5(data).hexdigest()
                for h, hl in MH.items():
                    by_digest[(h, hashlib.new(hl, data).hexdigest())] = tok
                st = os.stat(p)
                node = fs.add_file(r, size=len(data), digest=tok, mtime=int(st.st_mtime))
                if name in mnames:
                    pending.append((p, r, node))
            else:
                fs.add_file(r, kind='fifo')
    scan(root, '')
    for p, r, node in pending:
        mf = ManifestFile()
        try:
            with open_potentially_compressed_path(p, 'r', encoding='utf8') as f:
                mf.load(f, verify_openpgp=False)
        except (GematoException, OSError, EOFError, ValueError):
            node.invalid = True
            continue
        ents = []
        for e in mf.entries:
            e2 = modelfs.copy_entry(e)
            if hasattr(e2, 'checksums'):
                e2.checksums = {
                    h: modelfs.MHASH_PREFIX.get(h, '?') + by_digest.get((h, val),
                                                                         'nomatch:' + val)
                    for h, val in e.checksums.items()}
            ents.append(e2)
        node.entries = ents
        node.is_manifest = True
    return fs
