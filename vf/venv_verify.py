"""
Nondeterministic environment for ``gemato.verify`` (layer K).

Replaces, *inside the module gemato.verify only*, the names ``os``, ``open``, ``fcntl`` and
``hash_file`` by objects that describe one filesystem object with (possibly symbolic)
attributes, optionally injecting one OSError at a chosen call.  gemato's own code
(get_file_metadata, verify_path, update_entry_for_path) runs unmodified.
"""
import errno as _errno
import os as _real_os
import stat as _stat

import gemato.verify as gv

KINDS = ('absent', 'regular', 'directory', 'fifo', 'socket', 'chardev', 'blockdev')
MODES = {
    'regular': _stat.S_IFREG | 0o644, 'directory': _stat.S_IFDIR | 0o755,
    'fifo': _stat.S_IFIFO | 0o644, 'socket': _stat.S_IFSOCK | 0o644,
    'chardev': _stat.S_IFCHR | 0o644, 'blockdev': _stat.S_IFBLK | 0o644,
}


class StatResult:
    __slots__ = ('st_mode', 'st_dev', 'st_ino', 'st_size', 'st_mtime')

    def __init__(self, mode, dev, ino, size, mtime):
        self.st_mode, self.st_dev, self.st_ino = mode, dev, ino
        self.st_size, self.st_mtime = size, mtime


class OneFile:
    """One filesystem object and the ledger of what the code did with it."""

    def __init__(self, kind, dev=1, ino=7, st_size=0, mtime=0, true_size=0, digests=None,
                 fault_at=-1, fault_errno=_errno.EIO, socket_errno=_errno.ENXIO):
        self.kind = kind                 # concrete str from KINDS
        self.dev, self.ino = dev, ino
        self.st_size, self.mtime, self.true_size = st_size, mtime, true_size
        self.digests = digests or {}     # hashlib name -> value
        self.fault_at, self.fault_errno = fault_at, fault_errno
        self.socket_errno = socket_errno
        self.ncalls = 0
        self.open_fds = 0
        self.closed_fds = 0
        self.calls = []
        self.hashed = False
        self.hash_args = None
        self.fault_fired = False

    def _tick(self, what):
        i = self.ncalls
        self.ncalls += 1
        self.calls.append(what)
        if i == self.fault_at:
            self.fault_fired = True
            raise OSError(self.fault_errno, 'injected fault at ' + what)

    def stat(self):
        return StatResult(MODES[self.kind], self.dev, self.ino, self.st_size, self.mtime)


class _PathProxy:
    """os.path over the one-file world: exists() & co are a stat() that maps every
    OSError to False, exactly like the real ones"""

    def __init__(self, osp):
        self._osp = osp
        for n in ('join', 'dirname', 'basename', 'relpath', 'normpath', 'splitext', 'sep'):
            setattr(self, n, getattr(_real_os.path, n))

    def _st(self, path):
        try:
            return self._osp.stat(path)
        except OSError:
            return None

    def exists(self, path):
        return self._st(path) is not None

    lexists = exists

    def isfile(self, path):
        st = self._st(path)
        return st is not None and _stat.S_ISREG(st.st_mode)

    def isdir(self, path):
        st = self._st(path)
        return st is not None and _stat.S_ISDIR(st.st_mode)


class _OsProxy:
    O_RDONLY = _real_os.O_RDONLY
    O_NONBLOCK = _real_os.O_NONBLOCK

    def __init__(self, f: OneFile):
        self._f = f
        self.path = _PathProxy(self)

    def open(self, path, flags):
        f = self._f
        f._tick('open')
        if f.kind == 'absent':
            raise FileNotFoundError(_errno.ENOENT, 'No such file or directory', path)
        if f.kind == 'socket':
            raise OSError(f.socket_errno, 'No such device or address', path)
        f.open_fds += 1
        return 33

    def fstat(self, fd):
        assert fd == 33
        self._f._tick('fstat')
        return self._f.stat()

    def stat(self, path):
        f = self._f
        f._tick('stat')
        if f.kind == 'absent':
            raise FileNotFoundError(_errno.ENOENT, 'No such file or directory', path)
        return f.stat()

    def close(self, fd):
        assert fd == 33
        self._f.closed_fds += 1


class _FileObj:
    def __init__(self, f: OneFile):
        self._f = f

    def __enter__(self):
        return self

    def __exit__(self, *a):
        self._f.closed_fds += 1
        return False


class _Fcntl:
    F_SETFL = 4

    def __init__(self, f):
        self._f = f

    def fcntl(self, fd, op, arg):
        assert fd == 33
        return 0


class Installed:
    """Context manager: install the environment for one OneFile into gemato.verify."""

    def __init__(self, f: OneFile):
        self.f = f

    def __enter__(self):
        f = self.f
        self._saved = {k: gv.__dict__.get(k, _MISSING)
                       for k in ('os', 'open', 'fcntl', 'hash_file')}
        for k in ('os', 'fcntl', 'hash_file'):
            if k not in gv.__dict__:
                raise RuntimeError(f'seam gemato.verify.{k} is gone: cannot attach')
        gv.os = _OsProxy(f)
        gv.fcntl = _Fcntl(f)

        def _open(fd, mode='r', *a, **kw):
            assert fd == 33 and mode == 'rb', (fd, mode)
            f._tick('fdopen')
            return _FileObj(f)
        gv.open = _open

        def _hash_file(fobj, hashes, _apparent_size=0):
            f._tick('read')
            f.hashed = True
            f.hash_args = (list(hashes), _apparent_size)
            ret = {}
            for h in hashes:
                if h == '__size__':
                    ret[h] = f.true_size
                else:
                    ret[h] = f.digests[h]
            return ret
        gv.hash_file = _hash_file
        return f

    def __exit__(self, *a):
        for k, v in self._saved.items():
            if v is _MISSING:
                gv.__dict__.pop(k, None)
            else:
                setattr(gv, k, v)
        return False


_MISSING = object()
