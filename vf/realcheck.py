"""
Concrete cross-checks on the real filesystem with the unpatched gemato (model validation:
they guard the assumptions of the model runs and count as traces_validated_against_impl;
they are not the deciding step).
"""
import hashlib
import os
import random
import shutil
import subprocess
import sys
import tempfile


class RealTree:
    def __init__(self):
        self.tmp = tempfile.mkdtemp(prefix='vf-rt-', dir=os.environ.get('TMPDIR', '/tmp'))
        self.root = os.path.join(self.tmp, 'r')
        os.mkdir(self.root)

    def write(self, rel, data, mtime=None):
        p = os.path.join(self.root, rel)
        os.makedirs(os.path.dirname(p), exist_ok=True)
        with open(p, 'wb') as f:
            f.write(data)
        if mtime is not None:
            os.utime(p, (mtime, mtime))
        return p

    def read(self, rel):
        with open(os.path.join(self.root, rel), 'rb') as f:
            return f.read()

    def snapshot(self, manifests):
        """path -> (bytes, mtime_ns) of Manifest files (manifests=True) or of the others"""
        out = {}
        for d, dn, fn in os.walk(self.root):
            for f in fn:
                p = os.path.join(d, f)
                is_m = f.split('.')[0] == 'Manifest'
                if is_m == manifests:
                    st = os.stat(p)
                    with open(p, 'rb') as fh:
                        out[os.path.relpath(p, self.root)] = (fh.read(), st.st_mtime_ns)
        return out

    def close(self):
        shutil.rmtree(self.tmp, ignore_errors=True)


def gemato(*args, env=None):
    """the real command line tool in a fresh interpreter"""
    e = dict(os.environ)
    if env:
        e.update(env)
    e['PYTHONPATH'] = '/repo'
    p = subprocess.run([sys.executable, '-c',
                        'import sys, logging; logging.getLogger().setLevel(logging.ERROR);'
                        'from gemato.cli import main; sys.exit(main(["gemato"] + sys.argv[1:]))']
                       + list(args), capture_output=True, text=True, env=e)
    return p.returncode, p.stdout + p.stderr


def rnd_bytes(rnd, n):
    return bytes(rnd.randrange(256) for _ in range(n))
