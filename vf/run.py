"""
Runner: ./check <Cxx> <quick|thorough>  |  ./check <Cxx> --replay <file>

Exit status: 0 held on everything explored (incl. KNOWN-FINDING / INCONCLUSIVE lines),
             1 reproduced violation (a line `VIOLATION property=<id> replay=<path>`),
             3 harness error (vacuous twin, counterexample that does not reproduce, model and
               real implementation disagree, seam gone) - never reported as a violation.
"""
import concurrent.futures as cf
import hashlib
import importlib
import json
import os
import subprocess
import sys
import time

ROOT = os.path.dirname(os.path.dirname(os.path.abspath(__file__)))
PY = sys.executable
NPROC = int(os.environ.get('VF_JOBS', '16'))


def worker(modname, tier, cname, mode, extra=None, wall=None, exclude=None):
    cmd = [PY, '-m', 'vf.engine', modname, tier, cname, mode]
    if extra is not None:
        cmd.append(json.dumps(extra))
    env = dict(os.environ)
    if exclude:
        env['VF_EXCLUDE_POINTS'] = json.dumps(exclude)
    env['PYTHONPATH'] = ROOT + os.pathsep + env.get('PYTHONPATH', '')
    env['PYTHONHASHSEED'] = '0'
    t0 = time.time()
    try:
        p = subprocess.run(cmd, cwd=ROOT, env=env, capture_output=True, text=True,
                           timeout=wall)
        out, err, rc = p.stdout, p.stderr, p.returncode
    except subprocess.TimeoutExpired as e:
        out = e.stdout.decode() if isinstance(e.stdout, bytes) else (e.stdout or '')
        err, rc = 'wall timeout', -9
    res = None
    for line in out.splitlines():
        if line.startswith('RESULT '):
            res = json.loads(line[7:])
    if res is None:
        res = {'cond': cname, 'mode': mode, 'status': 'ERROR', 'paths': 0, 'z3_calls': 0,
               'z3_s': 0.0, 'detail': f'worker rc={rc}: {err[-1500:]}'}
    res.setdefault('wall_s', round(time.time() - t0, 2))
    return res


def load_known(prop):
    path = os.path.join(ROOT, 'known_findings.json')
    if not os.path.exists(path):
        return []
    with open(path) as f:
        return [k for k in json.load(f)['findings'] if k['property'] == prop]


def write_replay(prop, modname, tier, cname, args, observed):
    blob = {'property': prop, 'module': modname, 'tier': tier, 'condition': cname,
            'args': args, 'observed': observed}
    h = hashlib.sha1(json.dumps([cname, args], sort_keys=True).encode()).hexdigest()[:12]
    d = os.path.join(ROOT, 'replays', prop)
    os.makedirs(d, exist_ok=True)
    path = os.path.join(d, f'{cname}-{h}.json')
    with open(path, 'w') as f:
        json.dump(blob, f, indent=1, sort_keys=True)
    return path


def do_replay(path):
    with open(path) as f:
        blob = json.load(f)
    if blob.get('kind') == 'real-implementation cross-check':
        sys.path.insert(0, ROOT)
        mod = importlib.import_module(blob['module'])
        _, _, errs = mod.validate(blob.get('seed', 0), 'quick')
        for e in errs:
            print('observed:', e)
        if errs:
            print(f'VIOLATION property={blob["property"]} replay={path}')
            return 1
        print('replay: does not violate on the current tree')
        return 0
    res = worker(blob['module'], blob['tier'], blob['condition'], 'concrete', blob['args'],
                 wall=600)
    print(json.dumps(res, indent=1))
    bad = res.get('pre') and not res.get('ok', True)
    if bad and isinstance(res.get('real'), dict):
        bad = res['real'].get('reproduced') is not False
    if bad:
        print(f'VIOLATION property={blob["property"]} replay={path}')
        return 1
    print('replay: does not violate on the current tree')
    return 0


def main(argv):
    prop = argv[1].upper()
    if len(argv) > 3 and argv[2] == '--replay':
        return do_replay(argv[3])
    tier = argv[2] if len(argv) > 2 else os.environ.get('VERIF_TIER', 'quick')
    seed = int(os.environ.get('VERIF_SEED', '0') or 0)
    only = argv[3] if len(argv) > 3 else None
    modname = 'vf.props.' + prop.lower()
    t0 = time.time()
    sys.path.insert(0, ROOT)
    os.environ['VERIF_SEED'] = str(seed)
    try:
        mod = importlib.import_module(modname)
        conds = list(mod.conditions(tier))
    except Exception as e:
        print(f'HARNESS-ERROR property={prop} cannot build conditions: '
              f'{type(e).__name__}: {e}')
        import traceback
        traceback.print_exc()
        return 3
    if only:
        conds = [c for c in conds if only in c.name]
    known = load_known(prop)
    known_ids = {k['id'] for k in known if k.get('status') == 'known'}

    jobs = []
    for c in conds:
        jobs.append((c, 'main'))
        if c.twin:
            jobs.append((c, 'twin'))
    # longest first
    jobs.sort(key=lambda j: -j[0].timeout if j[1] == 'main' else 0)
    results = {}
    with cf.ThreadPoolExecutor(NPROC) as ex:
        futs = {ex.submit(worker, modname, tier, c.name, mode, None,
                          c.timeout * 2 + 120): (c, mode) for c, mode in jobs}
        for fu in cf.as_completed(futs):
            c, mode = futs[fu]
            results[(c.name, mode)] = fu.result()

    harness_errors, violations, inconclusive, confirmed = [], [], [], 0
    known_hits = []
    samples = []
    paths = z3c = 0
    z3s = 0.0
    per_cond = []
    for c in conds:
        r = results[(c.name, 'main')]
        paths += r.get('paths', 0)
        z3c += r.get('z3_calls', 0)
        z3s += r.get('z3_s', 0.0)
        entry = {'name': c.name, 'group': c.group, 'status': r['status'],
                 'paths': r.get('paths', 0), 'z3_calls': r.get('z3_calls', 0),
                 'z3_s': r.get('z3_s', 0.0), 'cpu_s': r.get('cpu_s'),
                 'descr': c.descr, 'bounds': c.bounds}
        if r['status'] == 'CONFIRMED':
            confirmed += 1
        elif r['status'] == 'REFUTED':
            def _replay(a):
                rp = worker(modname, tier, c.name, 'concrete', a, wall=900)
                ok_ = bool(rp.get('pre')) and not rp.get('ok', True)
                if ok_ and isinstance(rp.get('real'), dict):
                    # None = no real-filesystem counterpart of this instance (stage 1 stands)
                    ok_ = rp['real'].get('reproduced') is not False
                return rp, ok_
            args = r.get('args')
            rep, reproduced = _replay(args)
            if rep.get('harness_error'):
                harness_errors.append(f'{c.name}: {rep["harness_error"]} - the code no '
                                      f'longer goes through the seam the model attaches to')
                entry['status'] = 'HARNESS-ERROR'
                per_cond.append(entry)
                continue
            spurious = []
            # A model value that does not violate anything when run on the real code is an
            # imprecision of the engine's model of some builtin (seen with str.strip() vs
            # re "\\s" on a free code point).  The point is decided concretely (it holds), is
            # excluded, and the search repeated; never reported as a violation.
            while (not reproduced and args is not None and rep.get('pre')
                   and 'exception' not in rep and len(spurious) < 3
                   and c.replay_real is None):
                spurious.append(args)
                r = worker(modname, tier, c.name, 'main', None, c.timeout * 2 + 120,
                           exclude=spurious)
                paths += r.get('paths', 0)
                z3c += r.get('z3_calls', 0)
                z3s += r.get('z3_s', 0.0)
                entry['status'] = r['status']
                if r['status'] != 'REFUTED':
                    break
                args = r.get('args')
                rep, reproduced = _replay(args)
            if spurious:
                entry['engine_model_values_not_reproducing'] = spurious
            entry['counterexample'] = args
            entry['replay'] = rep
            if r['status'] == 'CONFIRMED':
                confirmed += 1
            elif r['status'] != 'REFUTED':
                inconclusive.append(c.name)
            elif not reproduced and spurious:
                inconclusive.append(c.name)
                entry['detail'] = 'engine model imprecision: counterexamples do not reproduce'
            elif not reproduced:
                harness_errors.append(
                    f'{c.name}: counterexample {json.dumps(args)} does not reproduce '
                    f'on the real code: {json.dumps(rep)[:600]}')
            else:
                from vf.engine import region_of
                kid = region_of(c, args)
                if kid is not None and kid in known_ids:
                    known_hits.append((kid, c.name, args))
                    entry['known_finding'] = kid
                else:
                    path = write_replay(prop, modname, tier, c.name, args, rep)
                    violations.append((c.name, path, r.get('detail', '')))
        elif 'SeamBypassed' in r.get('detail', ''):
            harness_errors.append(f'{c.name}: {r.get("detail", "")[:300]} - the code no longer '
                                  f'goes through a seam the model attaches to')
            entry['detail'] = r.get('detail', '')[:400]
        else:
            inconclusive.append(c.name)
            entry['detail'] = r.get('detail', '')[:400]
        if c.twin:
            t = results[(c.name, 'twin')]
            paths += t.get('paths', 0)
            z3c += t.get('z3_calls', 0)
            z3s += t.get('z3_s', 0.0)
            entry['twin'] = t['status']
            if t['status'] == 'REFUTED' and t.get('kind') == 'POST_FAIL':
                if len(samples) < 12:
                    samples.append({'condition': c.name, 'witness_args': t.get('args')})
            elif t['status'] == 'CONFIRMED':
                harness_errors.append(f'{c.name}: reachability twin confirmed - the '
                                      f'condition is vacuous')
            elif t['status'] == 'REFUTED':
                harness_errors.append(f'{c.name}: reachability twin crashed: '
                                      f'{t.get("detail", "")[:400]}')
            else:
                entry['twin_detail'] = t.get('detail', '')[:300]
        per_cond.append(entry)

    # known findings: replay the recorded reproducer of each listed finding
    for k in known:
        if k.get('status') != 'known':
            continue
        rep = worker(modname, k.get('tier', 'quick'), k['condition'], 'concrete',
                     k['args'], wall=900)
        still = bool(rep.get('pre')) and not rep.get('ok', True)
        if still and isinstance(rep.get('real'), dict):
            still = rep['real'].get('reproduced') is not False
        if still:
            print(f'KNOWN-FINDING: property={prop} {k["id"]}: {k["what"]}')
        else:
            print(f'NOTE: listed finding {k["id"]} no longer reproduces on this tree')

    # model validation / translator validation (guards the stubs; not the deciding step)
    validated, val_detail = 0, []
    if hasattr(mod, 'validate') and not only:
        try:
            validated, val_detail, val_err = mod.validate(seed, tier)
            for e in val_err:
                if getattr(mod, 'VALIDATION_CHECKS_PROPERTY', False):
                    # the cross-check compares the real implementation with the property
                    # itself (not with the model): a failure is a reproduced violation
                    blob = {'property': prop, 'kind': 'real-implementation cross-check',
                            'module': modname, 'seed': seed, 'observed': e,
                            'how_to_replay': f'{modname}.validate({seed}, {tier!r})'}
                    h = hashlib.sha1(e.encode()).hexdigest()[:12]
                    d = os.path.join(ROOT, 'replays', prop)
                    os.makedirs(d, exist_ok=True)
                    rp = os.path.join(d, f'validate-{h}.json')
                    with open(rp, 'w') as f:
                        json.dump(blob, f, indent=1)
                    violations.append(('validate', rp, e))
                else:
                    harness_errors.append('validation: ' + e)
        except Exception as e:
            import traceback
            harness_errors.append(f'validation crashed: {type(e).__name__}: {e} '
                                  + traceback.format_exc(limit=6))
    # which gemato functions the harnesses enter: traced on the concrete twin witnesses
    functions = set()
    seen_groups = set()
    for sm in [x for x in samples if x.get('witness_args')]:
        cnd = next((c for c in conds if c.name == sm['condition']), None)
        if cnd is None or cnd.group in seen_groups or len(seen_groups) >= 8:
            continue
        seen_groups.add(cnd.group)
        os.environ['VF_TRACE'] = '1'
        try:
            tr = worker(modname, tier, cnd.name, 'concrete', sm['witness_args'], wall=300)
        finally:
            os.environ.pop('VF_TRACE', None)
        functions.update(tr.get('functions', []))
    functions = sorted(functions)

    for name in inconclusive:
        print(f'INCONCLUSIVE property={prop} condition={name}')
    for e in harness_errors:
        print(f'HARNESS-ERROR property={prop} {e}')
    for name, path, detail in violations:
        print(f'VIOLATION property={prop} replay={path}')
        print(f'  condition={name} {detail[:300]}')

    if not samples:
        samples = [{'condition': c.name, 'descr': c.descr} for c in conds[:3]]
    wall = round(time.time() - t0, 2)
    evidence = {
        'property_id': prop, 'tier': tier if tier in ('quick', 'thorough') else 'quick',
        'seed': seed, 'level': 'model_checking',
        'coverage': {
            'states': max(paths, 1), 'transitions': max(z3c, 1),
            'traces_validated_against_impl': validated,
            'samples': samples,
            'exhaustive': (confirmed == len(conds) and not inconclusive),
            'explanation': 'states = symbolic execution paths of the real gemato code '
                           'explored by CrossHair; transitions = z3 satisfiability queries '
                           'discharged; every condition is exhausted within its stated '
                           'bounds or reported inconclusive',
            'engine': 'crosshair-tool 0.0.110 + z3 (bounded symbolic execution of /repo)',
            'conditions': len(conds), 'confirmed': confirmed,
            'inconclusive': inconclusive, 'known_findings_hit': [k[0] for k in known_hits],
            'solver_s': round(z3s, 2),
            'functions_encoded': functions,
            'validation': val_detail[:20],
            'per_condition': per_cond,
            'outside_claim': getattr(mod, 'OUTSIDE', []),
            'stubs': getattr(mod, 'STUBS', []),
        },
        'assumptions': getattr(mod, 'ASSUMPTIONS', []),
        'wall_s': wall, 'violations': len(violations),
    }
    os.makedirs(os.path.join(ROOT, 'evidence'), exist_ok=True)
    if not only:
        with open(os.path.join(ROOT, 'evidence', prop + '.json'), 'w') as f:
            json.dump(evidence, f, indent=1, sort_keys=True, default=repr)
    print(f'{prop} {tier}: {confirmed}/{len(conds)} conditions confirmed, '
          f'{len(inconclusive)} inconclusive, {len(violations)} violations, '
          f'{len(harness_errors)} harness errors, {paths} paths, {z3c} solver queries '
          f'({z3s:.1f}s), wall {wall}s')
    if violations:
        return 1
    if harness_errors:
        return 3
    return 0


if __name__ == '__main__':
    sys.exit(main(sys.argv))
