#!/bin/bash
# usage: tools/try_mutant.sh <patchfile> <prop> [tier] [filter]  -- apply patch to /repo, run the check, restore
set -u
P="$1"; PROP="$2"; TIER="${3:-quick}"; FILT="${4:-}"
git -C /repo apply "$P" || { echo "patch failed"; exit 9; }
trap 'git -C /repo checkout -- . ' EXIT
cd /verif && ./check "$PROP" "$TIER" $FILT 2>&1 | grep -v "^  condition" | tail -6
echo "exit=${PIPESTATUS[0]}"
