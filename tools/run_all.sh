#!/bin/bash
# run every registered check of a tier, one after the other; summary lines only
TIER="${1:-quick}"
cd "$(dirname "$0")/.."
for p in $(python3 -c "import json;print(' '.join(c['property_id'] for c in json.load(open('MANIFEST.json'))['checks']))") $2; do
  s=$(date +%s)
  out=$(./check $p $TIER 2>&1); rc=$?
  echo "$p rc=$rc $(( $(date +%s) - s ))s :: $(echo "$out" | grep -c '^VIOLATION') viol :: $(echo "$out" | tail -1)"
  echo "$out" | grep "^HARNESS-ERROR\|^INCONCLUSIVE\|^VIOLATION" | cut -c1-300 | head -5
done
