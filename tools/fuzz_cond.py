"""Debug aid (not a registered check): run conditions concretely on random small values to
shake out harness/oracle bugs before spending solver time."""
import sys, random, json
sys.path.insert(0, '/verif')
from vf.engine import run_concrete, load_conditions
mod, tier, pat, n = sys.argv[1], sys.argv[2], sys.argv[3], int(sys.argv[4])
rnd = random.Random(1)
conds = [c for c in load_conditions(mod, tier) if pat in c.name]
bad = 0
for c in conds:
    import inspect
    sig = inspect.signature(c.body)
    for i in range(n):
        args = {}
        for k, p in sig.parameters.items():
            t = p.annotation
            if t is int: args[k] = rnd.choice([0, 1, 2, 3, 5])
            elif t is bool: args[k] = rnd.random() < 0.5
            else: args[k] = rnd.choice(['', 'a', 'b', 'D', 'S'])
        r = run_concrete(c, args)
        if r.get('pre') and not r.get('ok'):
            bad += 1
            if bad < 6: print(c.name, json.dumps(args), r)
print('conds', len(conds), 'bad', bad)
