NOTES = ('Every check is `./check <id> <tier>`; exit 0/1 per the interface, exit 3 = harness '
         'error (never a violation). Bounds, stubs and what lies outside the claim are listed in '
         'each evidence file and in DESIGN.md par.5.')

PENDING = 'check not built yet in this round; will be claimed once its harness confirms on the unchanged tree'

CHECKS = {
 'C01': dict(
   text='Per-file verification rule, component-wise prefix matching and duplicate-entry '
        'compatibility are exhausted symbolically (all sizes, mtimes, digests, object kinds, '
        'entry tags, code points within the stated string lengths); whole-tree verdicts on an '
        'in-memory model of the filesystem with symbolic attributes.',
   design_ref='DESIGN.md par.5 C01',
   note='CrossHair/z3 semantics of CPython; hash functions collision-free; st_size is the true '
        'size or 0; tree shapes are the listed scenarios'),
 'C02': dict(
   text='Every lookup/verification API is run on Manifest chains of depth 3 (quick) / 4 '
        '(thorough) in which every Manifest file\'s (size,digest) and every MANIFEST entry\'s '
        '(size,digest) are independent symbols; a ghost log shows that no Manifest is parsed '
        'unless its link from an accepted parent matches, a broken link raises ManifestMismatch '
        'naming it, and with intact links results equal the oracle.',
   design_ref='DESIGN.md par.5 C02',
   note='model filesystem; Manifest parsing replaced by entry objects; compression by name only; '
        'collision-free hashes; depth <= 4'),
 'C03': dict(
   text='update_entries_for_directory + save_manifests run on model trees whose prior Manifest '
        'state is symbolic (0-2 entries per file incl. equal/sub-/superset hash sets, parent and '
        'child duplicates, registered/stale/unregistered/invalid/absent sub-Manifest, vanished '
        'and new files, requested hash set, sort/force); an exactness oracle on the written '
        'model plus a fresh real verification decide each path; counterexamples are replayed '
        'with the real update on a real directory tree.',
   design_ref='DESIGN.md par.5 C03',
   note='model filesystem; Manifest serialisation replaced by entry snapshots; <=2 prior '
        'entries per path; default profile; known finding F1 excluded by its region predicate'),
 'C07': dict(
   text='Keep-going verification on model trees with a symbolic choice of discrepancy per listed '
        'file, stray bits, a missing directory and a symbolic handler policy: the multiset of '
        'reported paths equals the oracle\'s offending set and the result is False iff some '
        'handler call returned False; exhausted over all combinations within the scenario.',
   design_ref='DESIGN.md par.5 C07',
   note='model filesystem; <=3 directories; handler policies by call position'),
 'C10': dict(
   text='Loader operation sequences (verify+lookups; update without save; update+save; failing update; save whose k-th '
        'dump fails) '
        'update) on a model tree with a complete write log: nothing is logged before save or '
        'by read-only operations, only Manifest paths are written, data nodes keep identity and '
        'attributes, DIST/IGNORE/TIMESTAMP multisets and entry types are preserved, and entries '
        'outside the updated directory stay untouched except MANIFEST entries on the chain.',
   design_ref='DESIGN.md par.5 C10',
   note='model filesystem: every mutation goes through logged seams; one scenario skeleton '
        '(S-own) with symbolic file attributes; sequences of at most init+op(+save)'),
 'C12': dict(
   text='(a) update+save twice on the C03 model scenarios: the second round logs no write and '
        'leaves every Manifest node unchanged; (b) two replicas differing only in walk order and '
        'prior entry order give identical written entry sequences under sort=True; (c) the real '
        'dump(sort=True) renders identical text for all 24 orders of 4 entries; gzip header '
        'parameters pinned.',
   design_ref='DESIGN.md par.5 C12',
   note='model filesystem; 3 names per directory; codecs deterministic given equal header '
        'parameters; F1 region of C03 excluded by construction'),
 'C13': dict(
   text='Verdicts of the same model tree with plain and with compressed-named sub-Manifests are '
        'equal for every format pair; update+save with a symbolic watermark, symbolic '
        'uncompressed sizes (incl. equality), target format and force leaves each rewritten '
        'sub-Manifest compressed iff size >= watermark, keeps the format of already compressed '
        'ones, never renames the top-level Manifest, leaves one file per Manifest referenced '
        'correctly by its parent, and the tree verifies; policy and suffix functions decided '
        'directly on symbolic ints/strings; ebuild profiles too; the size save_manifest hands '
        'to the policy is the UTF-8 byte length of what the real dump wrote for a symbolic '
        'file name.',
   design_ref='DESIGN.md par.5 C13',
   note='compression is a property of the name in the model (codecs are C code); two '
        'sub-Manifests; sizes are symbolic values reported by the text layer'),
 'C06': dict(
   text='An OSError is injected at a symbolic call position with a symbolic errno, (K) into '
        'verify_path/update_entry_for_path over the real get_file_metadata for every object '
        'kind, and (M) among all filesystem calls of a whole-tree verification or update scan on '
        'the model: the result is that error or a mismatch, never success and never "absent"; a '
        'failing update has logged no write; (M-find) the same for top-level Manifest '
        'discovery: the error is raised, no object is treated as absent.',
   design_ref='DESIGN.md par.5 C06',
   note='one fault per run; open(2) contract for ENXIO/EOPNOTSUPP; os.walk reports scandir '
        'errors through onerror; save phase and decompressors outside the claim'),
 'C15': dict(
   text='The real find_top_level_manifest runs on model directory chains (depth 1-2 quick, 1-3 '
        'thorough) where per level the Manifest presence, its name (plain/compressed), the kind '
        'of IGNORE entry (start path, ancestor, sibling, string-prefix look-alike, own '
        'directory name), the device '
        'of each level and of one Manifest file, allow_compressed and allow_xdev are symbolic '
        'choices; the result equals a reference written from the statement.',
   design_ref='DESIGN.md par.5 C15',
   note='model filesystem with a model "/" without Manifest; Manifest parsing replaced by entry '
        'objects; depth <= 3; one Manifest name per level'),
 'C16': dict(
   text='The three walkers (verify, unregistered-Manifest scan, update) run on a model with 3 '
        'symlink slots whose targets range symbolically over {none, root, a, a/b, c}, symbolic '
        'IGNORE placement, a directory and an empty mount point on other devices, '
        'one-file-system on/off; the model walk has fuel so non-termination is observable; the '
        'oracle is the definition evaluated by DFS over the link graph; plus a tree in which '
        'every object incl. a sub-Manifest file has its own symbolic device.',
   design_ref='DESIGN.md par.5 C16',
   note='os.walk(followlinks) protocol model; <=3 links, 4 directories; files consistent'),
 'C05': dict(
   text='The real verify_file runs against a transcript standing for gpg: every sequence of 3 '
        '(quick) / 4 (thorough) status lines over gpg\'s documented vocabulary, symbolic exit '
        'status and timestamp forms; the outcome and the returned signature data must equal the '
        'documented acceptance rule. _spawn_gpg exit/missing-binary handling, the isolated '
        'environment (GNUPGHOME/TZ forced for every invocation under any caller environment, '
        'owner trust for exactly the imported keys) and --require-signed-manifest are decided '
        'on the real functions with recording stubs.',
   design_ref='DESIGN.md par.5 C05',
   note='gpg itself (cryptography, trust database, key states) is behind a binary: its '
        'documented status protocol stands in; <=4 status lines; VALIDSIG well-formed'),
 'C04': dict(
   text='The real ManifestFile.load runs on line sequences built from a canonical prefix that '
        'drives the parser into each of its states, 2 (quick) / 3 (thorough) lines chosen '
        'symbolically from 19 line classes, and a canonical completion, with a recording '
        'OpenPGP backend that accepts or refuses; entries, the exact text handed to '
        'verification, the error class and the signed flag must equal an RFC 4880 par.7 '
        'reference automaton.',
   design_ref='DESIGN.md par.5 C04',
   note='lines are symbolic choices among concrete shapes; gpg\'s own notion of the cleartext is '
        'behind a binary; silent cases of the statement accept both behaviours'),
 'C08': dict(
   text='On symbolic strings: process_path(encoded_path(p)) == p for any code point in each of '
        'the listed neighbour contexts; the encoded path is one token free of blanks/controls; '
        'from_list(to_list(e)) == e for every tag with a free code point in the path; '
        'load(dump(entries)) with exact one-line/single-space shape; the canonical fixed point '
        'for every accepted \\x/\\u/\\U escape (hex digits free, int(.,16) modelled by digit '
        'arithmetic).',
   design_ref='DESIGN.md par.5 C08',
   note='one free code point per path (escaper is a per-character substitution); Python\'s '
        'str/int and strftime/strptime, and the codecs, are C code; two engine limitations '
        'listed in DESIGN.md'),
 'C09': dict(
   text='Every entry class\'s from_list on field lists of symbolic length with a free code point '
        'in the path and checksum value, checksum names by symbolic choice, size/timestamp via '
        'contract stubs: only ManifestSyntaxError may escape, every malformed shape listed in '
        'the statement is rejected, accepted entries are well-formed; all escape forms over '
        'free digits incl. values above 0x10FFFF; tag dispatch at line level through the real '
        'load(); escapes beyond a C int; a free size field under Python\'s number grammar '
        '(validated model of int).',
   design_ref='DESIGN.md par.5 C09',
   note='per-line decomposition; which digit strings int()/strptime accept is Python\'s '
        'business (contract stubs)'),
 'C14': dict(
   text='The real dump() for every sign option x loaded state x key id x backend verdict x '
        'entries (signs iff asked or loaded signed, backend receives exactly the plain dump, '
        'failure propagates, nothing written); the clear-sign wrapper for every exit status; '
        'update+forced save on a three-level model tree for every sign option, top-level name, '
        'watermark (renames) and prior signed flags: only the top-level Manifest is ever asked '
        'to be signed and ends up signed iff required.',
   design_ref='DESIGN.md par.5 C14',
   note='gpg --clearsign is a binary (its exit status and output stand in); signed flag per '
        'model Manifest node'),
 'C11': dict(
   text='The real UpdateCommand with --incremental: last_mtime equals the UTC epoch of the '
        'TIMESTAMP for every local UTC offset (symbolic seconds; counterexamples replayed under '
        'a real TZ); the real update_entry_for_path with and without last_mtime gives the same '
        'entry under the statement\'s hypothesis and never skips a size change; the TIMESTAMP '
        'written by update/create is the instant taken before the scan (clock stub with '
        'symbolic steps).',
   design_ref='DESIGN.md par.5 C11',
   note='datetime.timestamp() modelled by its documented contract; per-file skip rule is the '
        'only consumer of last_mtime, tree-level equality follows with C03'),
 'C17': dict(
   text='The real hash_file on an abstract file (offset/length blocks) with recording hash '
        'objects: for symbolic length, size hint and short-read schedule every hash object gets '
        'the whole content in order exactly once and __size__ is the true length; '
        'get_hash_by_name over a name vocabulary; get_file_metadata maps each of the ten '
        'Manifest names to the value of its own algorithm for any requested subset.',
   design_ref='DESIGN.md par.5 C17',
   note='hashlib algorithms are C code; chunked path <= 3 chunks with <= 2 short reads; name '
        'table compared with GLEP 59/74 as a constant'),
 'C18': dict(
   text='verify_entry_compatibility on all 7x7 entry kinds with symbolic sizes/digests and '
        'manifest_hashes_to_hashlib on odd names return or raise library exceptions only; '
        'gemato.cli.main (verify, update, sub-directory update, create; three profiles; '
        'keep-going) on model trees carrying one of 24 odd features ends with exit status 0/1 or '
        'a genuine OSError - no attribute/key/index/type/assertion/value error escapes; the '
        'parser\'s size field over free characters lets only the syntax error escape.',
   design_ref='DESIGN.md par.5 C18',
   note='one odd feature per tree; text-level totality is C09; argparse usage errors excluded'),
 'C19': dict(
   text='The profile policy functions on structured symbolic paths (components by symbolic '
        'choice from policy literals and near-misses, or with a free code point) against a '
        'policy table transcribed from the statement; create with each profile on a miniature '
        'repository with symbolic presence bits: Manifests exactly where the policy wants them, '
        'default IGNOREs, entry types, hash set, sorting, watermark compression, and a fresh '
        'default-profile verification.',
   design_ref='DESIGN.md par.5 C19',
   note='one repository skeleton (S-repo); policy transcription is the oracle'),
}

NOT_APPLICABLE = {
 'C20': 'differential property of two whole programs (multiprocessing, glob, chdir, real gzip/hashlib); digests cannot stay symbolic across the text boundary between the programs, so only enumeration of concrete runs would remain - outside solver-based checking (DESIGN.md par.6)',
}
for _p in ['C%02d' % i for i in range(1, 20)]:
    if _p not in CHECKS:
        NOT_APPLICABLE[_p] = PENDING
