NOTES = ('Every check is `./check <id> <tier>`; exit 0/1 per the interface, exit 3 = harness '
         'error (never a violation). Bounds, stubs and what lies outside the claim are listed in '
         'each evidence file and in DESIGN.md par.5.')

PENDING = 'check not built yet in this round; will be claimed once its harness confirms on the unchanged tree'

CHECKS = {
 'C01': dict(
   text='Per-file verification rule, component-wise prefix matching and duplicate-entry '
        'compatibility are exhausted symbolically (all sizes, mtimes, digests, object kinds, '
        'entry tags, code points within the stated string lengths); whole-tree verdicts on an '
        'in-memory model of the filesystem with symbolic attributes.',
   design_ref='DESIGN.md par.5 C01',
   note='CrossHair/z3 semantics of CPython; hash functions collision-free; st_size is the true '
        'size or 0; tree shapes are the listed scenarios'),
}

NOT_APPLICABLE = {
 'C20': 'differential property of two whole programs (multiprocessing, glob, chdir, real gzip/hashlib); digests cannot stay symbolic across the text boundary between the programs, so only enumeration of concrete runs would remain - outside solver-based checking (DESIGN.md par.6)',
}
for _p in ['C%02d' % i for i in range(1, 20)]:
    if _p not in CHECKS:
        NOT_APPLICABLE[_p] = PENDING
