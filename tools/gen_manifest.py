#!/usr/bin/env python3
"""Regenerate /verif/MANIFEST.json from the table below (kept in one place so that the
file stays valid at all times)."""
import json, os
ROOT = os.path.dirname(os.path.dirname(os.path.abspath(__file__)))

TECH = ('bounded symbolic execution of the real gemato functions (CrossHair 0.0.110 driving '
        'z3): inputs/attributes/fault positions are SMT variables, each condition is '
        'exhausted over all paths within stated bounds or reported inconclusive; '
        'counterexamples are replayed on the real code before being reported')

CHECKS = {}   # filled by props table
NOT_APPLICABLE = {}

def load():
    import importlib.util
    spec = importlib.util.spec_from_file_location('props_table', os.path.join(ROOT, 'tools', 'props_table.py'))
    m = importlib.util.module_from_spec(spec); spec.loader.exec_module(m)
    return m

def main():
    t = load()
    checks = []
    for pid, c in sorted(t.CHECKS.items()):
        checks.append({
            'property_id': pid,
            'quick_cmd': f'./check {pid} quick',
            'thorough_cmd': f'./check {pid} thorough',
            'evidence_file': f'/verif/evidence/{pid}.json',
            'replay_cmd_template': f'./check {pid} --replay {{path}}',
            'engine': 'vf',
            'level_claimed': {'category': 'model_checking', 'text': c['text'],
                              'design_ref': c['design_ref']},
            'level_note': c['note'],
            'technique': c.get('technique', TECH),
        })
    man = {
        'version': 1,
        'setup_cmd': './setup.sh',
        'hooks': {
            'guard': 'MGORNY_GEMATO_VERIF',
            'enable': 'none needed: the harness rebinds module-level names (os, open, fcntl, '
                      'hash_file, subprocess, ...) inside gemato modules from outside, for the '
                      'duration of one symbolic path; /repo carries no instrumentation',
            'baseline_off_cmd': 'cd /repo && /venv/bin/python -m pytest -ra -q -p no:cacheprovider --timeout=900 --continue-on-collection-errors',
            'source_commits': [],
            'add_only': True,
        },
        'engines': [{
            'name': 'vf', 'path': '/verif/vf',
            'serves_properties': sorted(t.CHECKS),
            'kind_free_text': 'CrossHair/z3 bounded symbolic execution harnesses over the real '
                              'gemato code with nondeterministic environment stubs and an '
                              'in-memory model filesystem',
        }],
        'checks': checks,
        'notes': t.NOTES,
        'not_applicable': [{'property_id': k, 'reason': v}
                           for k, v in sorted(t.NOT_APPLICABLE.items())],
    }
    with open(os.path.join(ROOT, 'MANIFEST.json'), 'w') as f:
        json.dump(man, f, indent=1)
        f.write('\n')

if __name__ == '__main__':
    main()
